#!/usr/bin/env python3
"""mutsweep.py - systematic single-token mutants of ivre/masscanned, run through the quick checks.

This is a development tool, not a registered check.  It never touches /repo: every lane works in
its own scratch git worktree of /repo and its own scratch copy of /verif under a directory given
on the command line (outside /repo and /verif), removed at the end.

For every sampled mutant:  build + the 93 baseline tests in the worktree;
  does not compile           -> stillborn
  a baseline test fails      -> killed-by-tests
  otherwise run the quick checks relevant to the mutated file (cheapest first, stop at the
  first one that reports a VIOLATION)  -> caught:<Cxx>  |  missed  |  error:<Cxx> (exit 2)

usage: mutsweep.py <scratch-dir> <lanes> <per-file> [seed] [file-substring ...]
Results are appended to <scratch-dir>/results.jsonl (copy what is worth keeping).
"""
import json
import os
import random
import re
import shutil
import subprocess
import sys
import threading

VERIF = os.path.dirname(os.path.abspath(__file__))

RELEVANT = [
    ("src/layer_2/arp.rs", ["C05", "C12", "C03", "C02", "C20"]),
    ("src/layer_2/mod.rs", ["C05", "C02", "C03", "C20", "C01"]),
    ("src/layer_3/icmpv4.rs", ["C05", "C12", "C04", "C20"]),
    ("src/layer_3/icmpv6.rs", ["C05", "C12", "C04", "C02", "C03", "C20"]),
    ("src/layer_3/ipv4.rs", ["C04", "C02", "C03", "C20", "C05", "C19"]),
    ("src/layer_3/ipv6.rs", ["C04", "C02", "C03", "C20", "C05", "C19"]),
    ("src/layer_3/mod.rs", ["C04", "C05"]),
    ("src/layer_4/tcp.rs", ["C06", "C12", "C04", "C03", "C20", "C09", "C07", "C08"]),
    ("src/layer_4/udp.rs", ["C15", "C04", "C03", "C19", "C20", "C14"]),
    ("src/layer_4/mod.rs", ["C04"]),
    ("src/synackcookie.rs", ["C06", "C09", "C07", "C08"]),
    ("src/proto/mod.rs", ["C12", "C14", "C11", "C19", "C18", "C17", "C16", "C15", "C10", "C13"]),
    ("src/proto/http.rs", ["C11", "C10", "C13"]),
    ("src/proto/ssh.rs", ["C18", "C10"]),
    ("src/proto/ghost.rs", ["C18", "C10"]),
    ("src/proto/stun.rs", ["C15", "C12", "C03", "C19"]),
    ("src/proto/dns/", ["C14", "C12"]),
    ("src/proto/rpc.rs", ["C16", "C12", "C11", "C19"]),
    ("src/proto/smb.rs", ["C17", "C12", "C10"]),
    ("src/proto/tcb.rs", ["C11", "C09", "C08", "C07"]),
    ("src/smack/", ["C10", "C13", "C18"]),
    ("src/logger/", ["C20"]),
    ("src/client/", ["C03", "C15"]),
]

OPS = [
    (r"==", "!="), (r"!=", "=="),
    (r"<=", "<"), (r">=", ">"),
    (r"(?<![<=\-])<(?![<=])", "<="), (r"(?<![>=\-])>(?![>=])", ">="),
    (r"&&", "||"), (r"\|\|", "&&"),
    (r"\+ 1\b", "+ 2"), (r"\+ 1\b", ""), (r"- 1\b", ""), (r"- 1\b", "- 2"),
    (r" \+ ", " - "), (r" - ", " + "),
    (r"\bwrapping_add\b", "wrapping_sub"),
    (r"\bcontinue;", "break;"), (r"\bbreak;", "continue;"),
    (r"\btrue\b", "false"), (r"\bfalse\b", "true"),
    (r"\b0x([0-9a-fA-F]{2})\b", "HEX+1"), (r"(?<![\w.])([1-9][0-9]?)(?![\w.])", "DEC+1"),
    (r"\.is_some\(\)", ".is_none()"), (r"\.is_none\(\)", ".is_some()"),
    (r"\bif !", "if "), (r"&\[(\w+)\.\.\]", "SLICE+1"),
]

SKIP_LINE = re.compile(r"^\s*(//|/\*|\*|#\[|use |pub use |mod |pub mod |debug!|info!|warn!|error!|trace!|assert|\"|const .*: &str)")


def candidates(root, only):
    out = []
    for dirpath, _, files in os.walk(os.path.join(root, "src")):
        for f in sorted(files):
            if not f.endswith(".rs"):
                continue
            path = os.path.join(dirpath, f)
            rel = os.path.relpath(path, root)
            if rel in ("src/verif.rs", "src/masscanned.rs"):
                continue
            props = None
            for pre, ps in RELEVANT:
                if rel.startswith(pre):
                    props = ps
                    break
            if props is None:
                continue
            if only and not any(o in rel for o in only):
                continue
            lines = open(path, encoding="utf-8", errors="replace").read().split("\n")
            in_macro = 0
            for n, line in enumerate(lines):
                if re.match(r"\s*#\[cfg\(test\)\]", line):
                    break
                if SKIP_LINE.match(line):
                    if re.match(r"^\s*(debug!|info!|warn!|error!|trace!)", line) and ");" not in line:
                        in_macro = 1
                    continue
                if in_macro:
                    if ");" in line:
                        in_macro = 0
                    continue
                code = line.split("//")[0]
                for oi, (pat, rep) in enumerate(OPS):
                    for m in re.finditer(pat, code):
                        if code[:m.start()].count('"') % 2 == 1 or code.lstrip().startswith("<") or len(code) > 300:
                            continue
                        if rep == "HEX+1":
                            v = (int(m.group(1), 16) + 1) & 0xFF
                            new = "0x%02x" % v
                        elif rep == "DEC+1":
                            new = str(int(m.group(1)) + 1)
                        elif rep == "SLICE+1":
                            new = "&[%s + 1..]" % m.group(1)
                        else:
                            new = rep
                        mutated = code[:m.start()] + new + code[m.end():] + line[len(code):]
                        out.append({"file": rel, "line": n + 1, "op": "%s->%s" % (pat, rep),
                                    "old": line.strip(), "new": mutated.strip(), "_text": mutated, "props": props})
    return out


def sh(cmd, cwd=None, env=None, timeout=None):
    try:
        # own process group, killed as a whole on timeout (a hanging test binary would otherwise spin on)
        p = subprocess.Popen(cmd, cwd=cwd, env=env, stdout=subprocess.PIPE, stderr=subprocess.STDOUT, text=True, start_new_session=True)
        try:
            out, _ = p.communicate(timeout=timeout)
        except subprocess.TimeoutExpired:
            os.killpg(p.pid, 9)
            p.communicate()
            raise
        return p.returncode, out
    except subprocess.TimeoutExpired as e:
        return 124, (e.stdout or b"").decode("utf-8", "replace") if isinstance(e.stdout, bytes) else (e.stdout or "")


def lane(i, scratch, queue, lock, resf):
    wt = os.path.join(scratch, "wt%d" % i)
    vf = os.path.join(scratch, "vf%d" % i)
    sh(["git", "-C", "/repo", "worktree", "add", "--detach", wt, "HEAD"])
    sh(["rsync", "-a", "--exclude", ".build", "--exclude", "work", "--exclude", "replays", "--exclude", ".git",
        "--exclude", "seeded", VERIF + "/", vf + "/"])
    env = dict(os.environ, CARGO_NET_OFFLINE="true", VERIF_REPO=wt)
    while True:
        with lock:
            if not queue:
                break
            m = queue.pop()
        path = os.path.join(wt, m["file"])
        orig = open(path, encoding="utf-8", errors="replace").read()
        lines = orig.split("\n")
        lines[m["line"] - 1] = m["_text"]
        open(path, "w", encoding="utf-8").write("\n".join(lines))
        res = dict((k, v) for k, v in m.items() if not k.startswith("_"))
        try:
            rc, out = sh(["cargo", "test", "--offline", "--workspace", "--no-fail-fast"], cwd=wt, env=env, timeout=900)
            if rc == 124:
                res["outcome"] = "killed-by-tests(timeout)"
            elif "test result:" not in out:
                res["outcome"] = "stillborn"
            elif rc != 0:
                res["outcome"] = "killed-by-tests"
            else:
                res["outcome"] = "missed"
                res["ran"] = []
                for p in m["props"] + [q for q in ("C01",) if q not in m["props"]]:
                    rc, out = sh([os.path.join(vf, "check"), p, "quick"], cwd=vf, env=env, timeout=1500)
                    res["ran"].append([p, rc])
                    if rc == 1 and "VIOLATION" in out:
                        cl = [l for l in out.split("\n") if "clause" in l][:2]
                        res["outcome"] = "caught:" + p
                        res["clause"] = cl
                        break
                    if rc != 0:
                        res["outcome"] = "error:%s:%d" % (p, rc)
                        res["tail"] = out[-600:]
                        break
        finally:
            open(path, "w", encoding="utf-8").write(orig)
        with lock:
            resf.write(json.dumps(res) + "\n")
            resf.flush()
            print("[lane %d] %s:%d %s  =>  %s" % (i, m["file"], m["line"], m["op"], res["outcome"]), flush=True)
    sh(["git", "-C", "/repo", "worktree", "remove", "--force", wt])
    shutil.rmtree(vf, ignore_errors=True)


def main():
    scratch, lanes, per_file = sys.argv[1], int(sys.argv[2]), int(sys.argv[3])
    seed = int(sys.argv[4]) if len(sys.argv) > 4 else 1
    only = sys.argv[5:]
    assert not os.path.abspath(scratch).startswith(("/repo", "/verif"))
    os.makedirs(scratch, exist_ok=True)
    cands = candidates("/repo", only)
    if os.environ.get("MUTSWEEP_LINES"):                 # debugging aid: only mutants of these line numbers
        want = set(int(x) for x in os.environ["MUTSWEEP_LINES"].split(","))
        cands = [c for c in cands if c["line"] in want]
    r = random.Random(seed)
    by_file = {}
    for c in cands:
        by_file.setdefault(c["file"], []).append(c)
    queue = []
    for f, cs in sorted(by_file.items()):
        r.shuffle(cs)
        queue += cs[:per_file]
    r.shuffle(queue)
    print("%d candidates in %d files; %d sampled" % (len(cands), len(by_file), len(queue)), flush=True)
    lock = threading.Lock()
    resf = open(os.path.join(scratch, "results.jsonl"), "a")
    ts = [threading.Thread(target=lane, args=(i, scratch, queue, lock, resf)) for i in range(lanes)]
    for t in ts:
        t.start()
    for t in ts:
        t.join()


if __name__ == "__main__":
    main()
