#!/usr/bin/env python3
"""Build the verification driver (masscanned with cargo feature `verif`) from /repo's
current working tree.  Serialised by a file lock so concurrent checks share one build."""
import fcntl
import os
import subprocess
import sys
import time

VERIF = os.path.dirname(os.path.dirname(os.path.abspath(__file__)))
REPO = os.environ.get("VERIF_REPO", "/repo")
BUILD = os.path.join(VERIF, ".build")


def build(release=False, quiet=True):
    os.makedirs(BUILD, exist_ok=True)
    lock = open(os.path.join(BUILD, "lock"), "w")
    fcntl.flock(lock, fcntl.LOCK_EX)
    try:
        env = dict(os.environ)
        env["CARGO_NET_OFFLINE"] = "true"
        env["CARGO_TARGET_DIR"] = os.path.join(BUILD, "target")
        cmd = ["cargo", "build", "--offline", "--features", "verif",
               "--manifest-path", os.path.join(REPO, "Cargo.toml")]
        if release:
            cmd.append("--release")
        t0 = time.time()
        p = subprocess.run(cmd, env=env, stdout=subprocess.PIPE, stderr=subprocess.STDOUT, text=True)
        if p.returncode != 0:
            sys.stderr.write(p.stdout)
            raise SystemExit(2)
        if not quiet:
            print("driver built in %.1fs" % (time.time() - t0))
        return os.path.join(BUILD, "target", "release" if release else "debug", "masscanned")
    finally:
        fcntl.flock(lock, fcntl.LOCK_UN)
        lock.close()


if __name__ == "__main__":
    print(build(quiet=False))
