"""C10, matcher level: dump the compiled matcher from the running binary and let TLC explore
its product with the reference signature automaton (spec/MCSmack.tla)."""
import os
import re

import tv


def write_table(workdir, rows):
    n = len(rows)
    lines = ["---------------------------- MODULE SmackTable ----------------------------",
             "(* generated from the running binary (driver command M): the reachable graph of the",
             "   compiled protocol matcher; entry >= 0: next state (0-based), -k: match of id k *)",
             "EXTENDS Integers", "SmackN == %d" % n, "SmackNext == <<"]
    body = []
    for i in range(n):
        end, ent = rows[i]
        vals = [("-" + e[1:]) if e.startswith("m") else e for e in ent]
        body.append("  << " + ", ".join(vals) + " >>")
    lines.append(",\n".join(body))
    lines.append(">>")
    lines.append("SmackEnd == << " + ", ".join((r[0][1:] if r[0].startswith("m") else "0") for r in (rows[i] for i in range(n))) + " >>")
    lines.append("=============================================================================")
    with open(os.path.join(workdir, "SmackTable.tla"), "w") as fh:
        fh.write("\n".join(lines) + "\n")


MIS_RE = re.compile(r'^<<\s*"MISMATCH",\s*"(stream|datagram)",\s*<<([^>]*)>>,\s*<<([^>]*)>>,\s*<<([^>]*)>>\s*>>$')


def _verdict(s):
    s = s.strip()
    if not s:
        return None
    m = re.match(r'"([^"]*)",\s*(\d+)', s)
    return (m.group(1), int(m.group(2)))


def run_product(driver, name="mcsmack"):
    rows = driver.matcher_dump()
    workdir = tv.prepare_dir(name)
    write_table(workdir, rows)
    rc, out = tv.run_tlc(workdir, "MCSmack.tla", "MCSmack.cfg", workers=4, timeout=600)
    m = re.search(r"(\d+) states generated, (\d+) distinct states found", out)
    if not m or "Model checking completed" not in out:
        with open(os.path.join(workdir, "mcsmack_error.log"), "w") as fh:
            fh.write(out)
        raise tv.ToolError("MCSmack did not complete; see %s" % os.path.join(workdir, "mcsmack_error.log"))
    mism = {}
    for t in tv.tlc_tuples(out):
        mm = MIS_RE.match(t)
        if not mm:
            continue
        mode = mm.group(1)
        wit = bytes(int(x) for x in mm.group(2).split(",") if x.strip())
        mv, rv = _verdict(mm.group(3)), _verdict(mm.group(4))
        mism[(mode, wit)] = (mv, rv)
    return {"matcher_states": len(rows), "generated": int(m.group(1)), "distinct": int(m.group(2)),
            "mismatches": [{"mode": k[0], "witness": k[1], "matcher": v[0], "reference": v[1]} for k, v in sorted(mism.items())]}
