"""Client of the verification driver (masscanned --verif-driver).

Runs frames through the real reply() and records, per frame, the reply bytes (or silence
or the abort), the connection-table size, and the lines the real loggers printed.  No
judgement is made here: everything recorded is handed to TLC (module Trace)."""
import ipaddress
import os
import re
import subprocess
import threading

from build import build

PROTO_NUM = {"Icmp": 1, "Tcp": 6, "Udp": 17, "Icmpv6": 58}


class Config:
    """A responder configuration.  key is (k0, k1); keyid an integer naming it in traces."""
    _keys = {}

    def __init__(self, mac="00:11:22:33:44:55", self_ips=None, deny=None, key=(0, 0), logger="none", level=0):
        self.mac = mac
        self.self_ips = None if self_ips is None else list(self_ips)
        self.deny = None if deny is None else list(deny)
        self.key = tuple(key)
        self.logger = logger
        self.level = level          # number of -v (0 = errors only ... 4 = trace)

    def keyid(self):
        return Config._keys.setdefault(self.key, len(Config._keys) + 1)

    def line(self):
        return "C %s %s %s %x %x %s" % (
            self.mac,
            ",".join(self.self_ips) if self.self_ips else "-",
            ",".join(self.deny) if self.deny else "-",
            self.key[0], self.key[1], self.logger)

    def record(self):
        def ipb(a):
            return list(ipaddress.ip_address(a).packed)
        return {"ev": "cfg", "mac": [int(x, 16) for x in self.mac.split(":")],
                "hasself": 1 if self.self_ips else 0, "self": [ipb(a) for a in (self.self_ips or [])],
                "hasdeny": 1 if self.deny else 0, "deny": [ipb(a) for a in (self.deny or [])],
                "key": self.keyid(), "logger": self.logger, "level": self.level}

    def describe(self):
        return {"mac": self.mac, "self": self.self_ips, "deny": self.deny,
                "key": ["%x" % self.key[0], "%x" % self.key[1]], "logger": self.logger, "level": self.level}

    @staticmethod
    def from_desc(d):
        return Config(d["mac"], d["self"], d["deny"], (int(d["key"][0], 16), int(d["key"][1], 16)),
                      d["logger"], d.get("level", 0))


def _mac(s):
    p = s.split(":")
    if len(p) != 6:
        raise ValueError(s)
    return [int(x, 16) for x in p]


def _ip(s):
    return list(ipaddress.ip_address(s).packed)


# the timestamp's format is not pinned by the statements: any non-empty token without blanks that holds a digit
CONSOLE_RE = re.compile(r"^[^\s=\"]*\d[^\s=\"]*$")
LAYERS = {"eth", "arp", "ipv4", "ipv6", "icmpv4", "icmpv6", "tcp", "udp"}
TAIL_FIELDS = {"eth": 1, "ipv4": 1, "ipv6": 1, "icmpv4": 2, "icmpv6": 2, "tcp": 3, "udp": 1}


def _blank(layer, verb):
    return {"layer": layer, "verb": verb, "ms": [], "md": [], "is": [], "id": [], "tr": -1, "ps": -1, "pd": -1, "bad": 0}


def parse_log_line(line, fmt):
    """Tokenise one logger line into the event record handed to the specification.
    Anything that does not have the shape of a complete line is returned with bad=1."""
    try:
        if fmt == "console":
            f = line.split("\t")
            if len(f) < 3 or not CONSOLE_RE.match(f[0]) or not f[1] or not f[2]:
                raise ValueError("prolog")
            if f[1] not in LAYERS:
                return _blank("app", f[2])          # an event of a layer the statements do not speak of
            ev = _blank(f[1], f[2])
            rest = f[3:]
            if f[1] == "arp":
                if len(rest) < 4:
                    raise ValueError("arp fields")
                col = [("" if c in ("-", "?", "--") else c) for c in rest[:4]]
                if col[0]:
                    ev["ms"] = _mac(col[0])
                if col[1]:
                    ev["md"] = _mac(col[1])
                if col[2]:
                    ev["is"] = _ip(col[2])
                if col[3]:
                    ev["id"] = _ip(col[3])
            else:
                # seven positional columns (MACs, IPs, transport, ports); what follows them is the layer's own
                # business; an empty column or a placeholder ("-", "?") means "not known at this layer"
                if len(rest) < 7:
                    raise ValueError("fields")
                col = [("" if c in ("-", "?", "--") else c) for c in rest[:7]]
                if col[0]:
                    ev["ms"] = _mac(col[0])
                if col[1]:
                    ev["md"] = _mac(col[1])
                if col[2]:
                    ev["is"] = _ip(col[2])
                if col[3]:
                    ev["id"] = _ip(col[3])
                if col[4]:
                    ev["tr"] = PROTO_NUM.get(col[4], -1)
                if col[5]:
                    ev["ps"] = int(col[5])
                if col[6]:
                    ev["pd"] = int(col[6])
            return ev
        else:
            toks = line.split()
            kv = {}
            for t in toks:
                if "=" not in t:
                    raise ValueError("token")
                k, v = t.split("=", 1)
                if k in kv:
                    raise ValueError("dup")
                kv[k] = v
            if not toks or not toks[0].startswith("ts=") or not kv.get("proto") or "verb" not in kv:
                raise ValueError("prolog")
            if kv["proto"] not in LAYERS:
                return _blank("app", kv["verb"])    # an event of a layer the statements do not speak of
            if not CONSOLE_RE.match(kv["ts"]):
                raise ValueError("ts")
            ev = _blank(kv["proto"], kv["verb"])
            kv = dict((k, v) for k, v in kv.items() if v not in ("", "-", "?"))
            if "mac_src" in kv:
                ev["ms"] = _mac(kv["mac_src"])
            if "mac_dst" in kv:
                ev["md"] = _mac(kv["mac_dst"])
            if "ip_src" in kv:
                ev["is"] = _ip(kv["ip_src"])
            if "ip_dst" in kv:
                ev["id"] = _ip(kv["ip_dst"])
            if "transport" in kv:
                ev["tr"] = PROTO_NUM.get(kv["transport"], -1)
            if "port_src" in kv:
                ev["ps"] = int(kv["port_src"])
            if "port_dst" in kv:
                ev["pd"] = int(kv["port_dst"])
            # which further keys a layer prints (eth_type, op, icmp_type, flags ...) is the format's business
            return ev
    except Exception:
        ev = _blank("?", "?")
        ev["bad"] = 1
        ev["raw"] = line[:200]
        return ev


class Driver:
    """One driver process at a fixed diagnostic level."""

    def __init__(self, level=0, release=False, binary=None):
        self.binary = binary or build(release=release)
        self.level = level
        self.proc = None
        self.cfg = None

    def start(self):
        self.stop()
        args = [self.binary, "--verif-driver"] + ["-v"] * self.level
        self.proc = subprocess.Popen(args, stdin=subprocess.PIPE, stdout=subprocess.PIPE,
                                     stderr=subprocess.DEVNULL, bufsize=1 << 20)
        if self.cfg is not None:
            self._cmd(self.cfg.line())

    def stop(self):
        if self.proc is not None:
            try:
                self.proc.stdin.close()
            except Exception:
                pass
            try:
                self.proc.kill()
            except Exception:
                pass
            self.proc.wait()
            self.proc = None

    def _cmd(self, line):
        self.proc.stdin.write((line + "\n").encode())
        self.proc.stdin.flush()
        return self.proc.stdout.readline().decode("utf-8", "replace").rstrip("\n")

    def configure(self, cfg):
        if self.proc is None or self.proc.poll() is not None or cfg.level != self.level:
            self.level = cfg.level
            self.cfg = cfg
            self.start()
        else:
            self.cfg = cfg
            self._cmd(cfg.line())

    def reset(self):
        if self.proc is None:
            self.start()
        self._cmd("Z")

    def matcher_dump(self):
        if self.proc is None:
            self.start()
        self.proc.stdin.write(b"M\n")
        self.proc.stdin.flush()
        rows = {}
        while True:
            ln = self.proc.stdout.readline().decode().strip()
            if ln == "@M done" or not ln:
                break
            if ln.startswith("@MS "):
                p = ln.split()
                rows[int(p[1])] = (p[2], p[3:])
        return rows

    def run(self, frames, timeout=120):
        """Run a list of frames (bytes).  Returns a list of observation dicts.  If the
        responder aborts on a frame, that observation has out="panic" and the remaining
        frames are not run (the process is dead, as it would be in production); the caller
        decides whether to restart."""
        if self.proc is None:
            self.start()
        proc = self.proc
        fmt = self.cfg.logger if self.cfg else "none"

        def feed():
            try:
                for f in frames:
                    proc.stdin.write(b"F " + f.hex().encode() + b"\n")
                proc.stdin.flush()
            except Exception:
                pass

        th = threading.Thread(target=feed, daemon=True)
        th.start()
        timer = threading.Timer(timeout, lambda: proc.kill())
        timer.start()
        out = []
        try:
            for f in frames:
                lines = []
                obs = None
                while True:
                    raw = proc.stdout.readline()
                    if not raw:
                        # process died without reporting: abort/segfault/watchdog
                        obs = {"out": "panic", "rep": [], "tcb": -1, "panic": "driver died (signal, abort or watchdog timeout)"}
                        break
                    ln = raw.decode("utf-8", "replace").rstrip("\n")
                    if ln.startswith("@R "):
                        p = ln.split()
                        obs = {"out": "reply", "rep": list(bytes.fromhex(p[1])), "tcb": int(p[2])}
                        break
                    if ln.startswith("@N "):
                        obs = {"out": "silence", "rep": [], "tcb": int(ln.split()[1])}
                        break
                    if ln.startswith("@P "):
                        p = ln.split(" ", 2)
                        obs = {"out": "panic", "rep": [], "tcb": int(p[1]), "panic": p[2] if len(p) > 2 else ""}
                        break
                    lines.append(ln)
                if obs["out"] == "panic" and lines and lines[-1] == "":
                    lines.pop()     # the driver terminates a possibly unfinished logger line
                obs["log"] = [parse_log_line(x, fmt) for x in lines] if fmt != "none" else \
                             [parse_log_line(x, "logfmt") for x in lines]
                obs["req"] = list(f)
                out.append(obs)
                if obs["out"] == "panic":
                    break
        finally:
            timer.cancel()
        if out and out[-1]["out"] == "panic":
            self.stop()
        return out
