"""Model checking of the reference responder (spec/MCStack.tla) over a concrete frame domain,
and replay of the model's behaviours into the implementation (specification -> implementation).

The cookies of the model flows are learnt from the implementation first (one SYN per flow),
so that every frame of the domain - in particular the data segments that acknowledge
cookie+1 - means the same thing to the model and to the real code."""
import json
import os
import re

import tv
from common import *
from frames import *
from l7 import *
from gens import Flow, open_flows, solicited_node, mcast_mac6
from session import make_aux


def model_domain(runner, cfg, tier):
    """Build the frame domain.  Returns (frames, cookie records)."""
    s = runner.session(cfg, "mc domain: learning the cookies of the model flows")
    p4, p6 = peer4(), peer6()
    flows = [Flow(p4, 1111, 80, 0xfffffff0), Flow(p6, 2222, 111, 7)]
    if tier != "quick":
        flows.append(Flow(p4, 1111, 81, 0x7fffffff))
    open_flows(s, flows)
    cm = mac(CMAC)
    frames = []
    # layer 2 / 3 / 4 without connection state
    frames += [eth(b"\xff" * 6, cm, 0x0806, arp(1, cm, C4, "00:00:00:00:00:00", S4)),
               eth(SMAC, cm, 0x0806, arp(2, cm, C4, SMAC, S4)),
               eth(b"\xff" * 6, cm, 0x0806, arp(1, cm, C4, "00:00:00:00:00:00", O4)),
               eth("02:00:00:00:00:01", cm, 0x0800, ipv4(C4, S4, 1, icmp_echo(1, 2, b"x"))),
               p4.echo(1, 2, b"odd"), p6.echo(3, 4, b"even"), p4.echo(1, 2, b"", code=1), p6.echo(1, 2, b"", type_=129),
               eth(mcast_mac6(S6), cm, 0x86DD, ipv6(C6, solicited_node(S6), 58, nd_ns(C6, solicited_node(S6), S6, b"\x01\x01" + cm), hlim=255)),
               eth(SMAC, cm, 0x86DD, ipv6(C6, S6, 58, nd_ns(C6, S6, O6), hlim=255)),
               eth(SMAC, cm, 0x0800, ipv4(D4, S4, 1, icmp_echo(1, 2, b"denied"))),
               eth(SMAC, cm, 0x0800, ipv4(C4, O4, 1, icmp_echo(1, 2, b"not ours"))),
               eth(SMAC, cm, 0x86DD, ipv6(C6, O6, 58, icmp6(C6, O6, 128, 0, b"\0\1\0\1"))),
               p4.l3(47, b"gre"), eth(SMAC, cm, 0x1234, b"??"), b"\0" * 9, p4.l3(6, b"\0" * 10), p6.l3(17, b"\0" * 5)]
    # UDP applications
    for p in (p4, p6):
        frames += [p.udp(5000, 3478, stun(1, b"\x11" * 16)), p.udp(5000, 65535, stun(1, b"\x12" * 16, stun_change_request(False, True))),
                   p.udp(5001, 80, http_request()), p.udp(5001, 80, b"GET / HTTP/1.1\r\n"), p.udp(5002, 22, ssh_ident()),
                   p.udp(5002, 22, b"SSH-2.0-x\n"), p.udp(5003, 9, ghost(b"tail")), p.udp(5004, 111, rpc_call(0x12345678, vers=2, proc=3)),
                   p.udp(5004, 111, rpc_call(0x12345679, vers=4, proc=3)), p.udp(5004, 111, rpc_call(0x1234567a, vers=9, proc=3)),
                   p.udp(5004, 111, rpc_call(0x1234567b, vers=3, proc=0)), p.udp(5004, 111, rpc_call(0x1234567c, prog=100003, vers=3, proc=1)),
                   p.udp(5004, 111, rpc_call(0x1234567d, vers=2, proc=9)), p.udp(5005, 7, b"no protocol at all"),
                   p.udp(5004, 111, rpc_call(0x1234567e, vers=2, proc=4)), p.udp(5004, 65535, rpc_call(0x1234567f, vers=4, proc=4)),
                   p.udp(5007, 445, smb1_negotiate([b"LANMAN1.0", b"NT LM 0.12"], mid=7, uid=9)), p.udp(5007, 445, smb1_session_setup(tid=3)),
                   p.udp(5007, 445, smb2_negotiate([0x0210, 0x0202, 0x0311], message_id=77)), p.udp(5007, 445, smb2_session_setup(session_id=5)),
                   p.udp(5007, 445, smb1_negotiate(flags=0x98)), p.udp(5007, 445, smb2_negotiate([0x1234]))]
    frames += [p4.udp(5006, 53, dns_query(0x4242, 0x0100, [(b"www", b"example", b"org")])),
               p4.udp(5006, 53, dns_query(0x4243, 0x0000, [(b"a",), (b"bb", b"c")])),
               p4.udp(5006, 53, dns_query(0x4244, 0x8180, [(b"a",)])), p4.udp(5006, 53, dns_query(0x4245, 0x0100, [(b"a",)], qtypes=[(16, 1)])),
               p4.udp(5006, 53, dns_query(0x4246, 0x0100, [(b"a", b"b")])[:20])]
    # TCP on the model flows
    req = http_request("GET", b"/")
    rpc = rpc_call(0x80000001, vers=2, proc=3, tcp=True)
    for f in flows:
        ck = f.ck
        isn = (f.seq - 1) & 0xFFFFFFFF
        big_stun = stun(1, STUN_MAGIC + b"\x13" * 12, stun_attr(0x8022, b"s" * 252) + stun_change_request(False, True))
        frag = b"\x01" + rpc[1:]                       # the same call in a fragment that is not the last of its record
        pay = {0: [req, req[:2], req[2:9], req[9:], b"SSH-2.0-cli\r\n", b"zzz", b"SSH-", b"2.0-cli\r\n"],
               1: [rpc, rpc[:20], rpc[20:], b"\x80\0", big_stun, frag], 2: [req]}[flows.index(f)]
        frames.append(f.peer.tcp(f.sport, f.dport, isn, 0, F_SYN))
        frames.append(f.peer.tcp(f.sport, f.dport, isn, 0, F_SYN | F_ECE | F_CWR))
        frames.append(f.peer.tcp(f.sport, f.dport, f.seq, (ck + 1) & 0xFFFFFFFF, F_ACK))
        frames.append(f.peer.tcp(f.sport, f.dport, f.seq, (ck + 1) & 0xFFFFFFFF, F_RST))
        frames.append(f.peer.tcp(f.sport, f.dport, f.seq, (ck + 1) & 0xFFFFFFFF, F_FIN | F_ACK))
        frames.append(f.peer.tcp(f.sport, f.dport, f.seq, (ck + 1) & 0xFFFFFFFF, F_SYN | F_ACK))
        for x in pay:
            frames.append(f.peer.tcp(f.sport, f.dport, f.seq, (ck + 1) & 0xFFFFFFFF, F_PSH | F_ACK, x))
        frames.append(f.peer.tcp(f.sport, f.dport, f.seq, (ck + 1) & 0xFFFFFFFF, F_PSH | F_ACK, pay[0], doff=8,
                                 options=b"\x01\x01\x08\x0a\x00\x01\xe2\x40\x00\x00\x00\x00"))
        frames.append(f.peer.tcp(f.sport, f.dport, f.seq, (ck + 2) & 0xFFFFFFFF, F_PSH | F_ACK, pay[0]))
        frames.append(f.peer.tcp(f.sport, f.dport, f.seq, ck, F_PSH | F_ACK, pay[0]))
        frames.append(f.peer.tcp(f.sport, f.dport, f.seq, 0, F_PSH | F_ACK, b""))
        frames.append(f.peer.tcp(f.sport, f.dport, f.seq, (ck + 1) & 0xFFFFFFFF, F_PSH | F_ACK, b""))
    cookies = []
    for f in flows:
        cookies.append({"flow": [6 if f.peer.v6 else 4, list(f.peer.cip), f.sport, list(f.peer.sip), f.dport],
                        "ck": [f.ck >> 16, f.ck & 0xffff]})
    # de-duplicate
    seen, out = set(), []
    for fr in frames:
        if fr not in seen:
            seen.add(fr)
            out.append(fr)
    return out, cookies


BEH_RE = re.compile(r'^<<\s*"BEHAVIOUR",\s*<<([^>]*)>>,\s*"([^"]*)"\s*>>$')


def run_model(runner, cfg, tier, name="mcstack", depth=4):
    frames, cookies = model_domain(runner, cfg, tier)
    workdir = tv.prepare_dir(name)
    with open(os.path.join(workdir, "frames.ndjson"), "w") as fh:
        for fr in frames:
            fh.write(json.dumps({"req": list(fr), "uaddr": make_aux(fr, b"")["uaddr"]}) + "\n")
    with open(os.path.join(workdir, "cookies.ndjson"), "w") as fh:
        for c in cookies:
            fh.write(json.dumps(c) + "\n")
    with open(os.path.join(workdir, "mccfg.ndjson"), "w") as fh:
        fh.write(json.dumps(cfg.record()) + "\n")
    env = {"FRAMES": os.path.join(workdir, "frames.ndjson"), "COOKIES": os.path.join(workdir, "cookies.ndjson"),
           "MCCFG": os.path.join(workdir, "mccfg.ndjson"), "MCDEPTH": str(depth), "JAVA_TOOL_OPTIONS": "-Xss256m"}
    rc, out = tv.run_tlc(workdir, "MCStack.tla", "MCStack.cfg", env, workers=6, xmx="6g", timeout=1500 if depth <= 3 else 5400)
    with open(os.path.join(workdir, "mcstack.log"), "w") as fh:
        fh.write(out)
    m = re.search(r"(\d+) states generated, (\d+) distinct states found", out)
    ok = "Model checking completed. No error has been found" in out
    beh = {}
    for t in tv.tlc_tuples(out):
        mm = BEH_RE.match(t)
        if mm:
            h = tuple(int(x) for x in mm.group(1).split(",") if x.strip())
            beh[h] = mm.group(2)
    res = {"ok": ok, "rc": rc, "generated": int(m.group(1)) if m else 0, "distinct": int(m.group(2)) if m else 0,
           "frames": len(frames), "behaviours": beh, "log": os.path.join(workdir, "mcstack.log")}
    if not ok:
        err = re.search(r"Error: (.*)", out)
        res["error"] = err.group(1) if err else "unknown"
        inv = re.search(r"Invariant (\w+) is violated", out)
        if inv:
            res["error"] = "Invariant %s is violated by the reference model" % inv.group(1)
    return frames, res


def simulate_model(workdir_name, frames_count, num=200, depth=60):
    """Random long behaviours of the same model (TLC -simulate): returns the maximal frame-index
    sequences.  Uses the files written by run_model() in its work directory."""
    workdir = os.path.join(tv.WORK, workdir_name)
    env = {"FRAMES": os.path.join(workdir, "frames.ndjson"), "COOKIES": os.path.join(workdir, "cookies.ndjson"),
           "MCCFG": os.path.join(workdir, "mccfg.ndjson"), "MCDEPTH": str(depth), "JAVA_TOOL_OPTIONS": "-Xss256m"}
    rc, out = tv.run_tlc(workdir, "MCStack.tla", "MCStack.cfg", env, workers=4, xmx="4g", timeout=1500,
                         extra=["-simulate", "num=%d" % num, "-depth", str(depth + 2)])
    hs = set()
    for t in tv.tlc_tuples(out):
        mm = BEH_RE.match(t)
        if mm:
            hs.add(tuple(int(x) for x in mm.group(1).split(",") if x.strip()))
    if "Error:" in out and "violated" in out:
        raise tv.ToolError("the reference model fails in simulation; see TLC output in %s" % workdir)
    # keep only maximal behaviours (those that are not a proper prefix of another)
    prefixes = set()
    for h in hs:
        for k in range(len(h)):
            prefixes.add(h[:k])
    return sorted(h for h in hs if h not in prefixes and len(h) > 4)


def replay_long(runner, cfg, frames, behaviours):
    for h in behaviours:
        s = runner.session(cfg, "replay of a simulated model behaviour of %d steps" % len(h))
        s.send([frames[i - 1] for i in h])


def replay_behaviours(runner, cfg, frames, behaviours, tier, r):
    """Each behaviour (sequence of frame indices reaching a distinct model state) is executed
    on the real code and extended by every frame of the domain in turn (bounded in the quick
    tier): one concrete test per (state, frame) transition of the model."""
    hs = sorted(behaviours.keys(), key=lambda h: (len(h), h))
    if tier == "quick" and len(hs) > 40:
        hs = hs[:10] + r.sample(hs[10:], 30)
    elif tier != "quick" and len(hs) > 500:
        hs = hs[:100] + r.sample(hs[100:], 400)
    for h in hs:
        s = runner.session(cfg, "replay of model behaviour %s" % (list(h),))
        s.send([frames[i - 1] for i in h])
        ext = list(range(len(frames)))
        if tier == "quick":
            ext = r.sample(ext, min(len(ext), 25))
        # each extension from the same state: reset and re-run the prefix (the table is the only state)
        batch = []
        for e in ext:
            s.reset()
            s.send([frames[i - 1] for i in h] + [frames[e]])
