"""Sessions: sequences of frames executed by the real responder under one configuration,
recorded as the ndjson records module Trace consumes."""
import ipaddress
import struct
import zlib

from driver import Driver, Config


def _l4(frame):
    """(version, proto, l4 offset, src, dst) of an Ethernet frame, or None (syntactic only)."""
    if len(frame) < 14:
        return None
    et = struct.unpack(">H", frame[12:14])[0]
    if et == 0x0800 and len(frame) >= 34:
        ihl = (frame[14] & 15) * 4
        return 4, frame[23], 14 + max(ihl, 20), frame[26:30], frame[30:34]
    if et == 0x86DD and len(frame) >= 54:
        return 6, frame[20], 54, frame[22:38], frame[38:54]
    return None


def make_aux(req, rep, chain=0, grp=0, pair=0, seg=0):
    """Decodes that TLA+ cannot do itself: the universal address text of the contacted
    endpoint (RFC 5952 text of the destination address + port), and what the zlib body of a
    Gh0st reply inflates to."""
    aux = {"inflated": -1, "uaddr": [], "chain": chain, "grp": grp, "pair": pair, "seg": seg}
    x = _l4(req)
    if x and x[1] in (6, 17) and len(req) >= x[2] + 4:
        dport = struct.unpack(">H", req[x[2] + 2:x[2] + 4])[0]
        try:
            txt = str(ipaddress.ip_address(bytes(x[4])))
            aux["uaddr"] = list(("%s.%d.%d" % (txt, dport >> 8, dport & 255)).encode())
        except Exception:
            pass
    if rep:
        y = _l4(rep)
        if y and y[1] in (6, 17):
            app = rep[y[2] + (8 if y[1] == 17 else 20):]
            if app[:5] == b"Gh0st" and len(app) >= 13:
                try:
                    aux["inflated"] = len(zlib.decompress(bytes(app[13:])))
                except Exception:
                    aux["inflated"] = -1
    return aux


class Session:
    def __init__(self, driver, cfg, label=""):
        self.driver = driver
        self.cfg = cfg
        self.label = label
        self.records = [cfg.record(), {"ev": "reset"}]
        self.frames = []          # (frame bytes) parallel to records[2:]
        self.dead = False
        self.panics = 0
        driver.configure(cfg)
        driver.reset()

    def send(self, frames, chain=0, grp=0, pair=0, seg=0, timeout=None):
        """Run frames; returns the observations (dicts with out/rep/tcb/log), one per frame.
        An abort of the responder is recorded as such; the driver is then restarted (empty
        connection table, recorded as a reset) and the remaining frames are still run."""
        frames = [bytes(f) for f in frames]
        if timeout is None:
            timeout = 40 + 0.01 * len(frames)       # watchdog: generous even on a loaded machine
        all_obs = []
        pos = 0
        while pos < len(frames):
            obs = self.driver.run(frames[pos:], timeout=timeout)
            for i, o in enumerate(obs):
                k = pos + i
                rep = bytes(o["rep"])
                ch = chain[k] if isinstance(chain, (list, tuple)) else chain
                gr = grp[k] if isinstance(grp, (list, tuple)) else grp
                pr = pair[k] if isinstance(pair, (list, tuple)) else pair
                sg = seg[k] if isinstance(seg, (list, tuple)) else seg
                rec = {"ev": "frame", "req": o["req"], "out": o["out"], "rep": o["rep"], "tcb": o["tcb"],
                       "log": o["log"], "aux": make_aux(frames[k], rep, ch, gr, pr, sg)}
                if o["out"] == "panic":
                    rec["panic"] = o.get("panic", "")
                    self.panics += 1
                self.records.append(rec)
                self.frames.append(frames[k])
            all_obs += obs
            pos += len(obs)
            if obs and obs[-1]["out"] == "panic":
                self.driver.configure(self.cfg)      # fresh process
                self.driver.reset()
                self.records.append({"ev": "reset"})
                self.frames.append(None)
            elif not obs:
                break
        return all_obs

    def reconfigure(self, cfg):
        """Continue the same recorded trace under another configuration (empty table)."""
        self.cfg = cfg
        self.driver.configure(cfg)
        self.driver.reset()
        self.records.append(cfg.record())
        self.frames.append(("cfg", cfg.describe()))
        self.records.append({"ev": "reset"})
        self.frames.append(None)

    def reset(self):
        if not self.dead:
            self.driver.reset()
            self.records.append({"ev": "reset"})
            self.frames.append(None)


def replay_doc(cfg, frames, note=""):
    return {"config": cfg.describe(), "frames": [f.hex() if f is not None else None for f in frames], "note": note}
