"""Shared constants and small helpers for the generators."""
import random

from driver import Config
from frames import Peer

SMAC = "00:11:22:33:44:55"          # the responder's MAC
CMAC = "0a:0b:0c:0d:0e:0f"          # a client
S4 = "10.11.12.13"                  # handled IPv4 (on the self-IP list when there is one)
S4B = "10.11.140.13"                # second octet differs in bit 7 only: same RFC 1112 multicast MAC as 10.139.140.13
S6 = "2001:db8::aabb:ccdd"          # handled IPv6
O4 = "10.11.12.99"                  # not handled
O6 = "2001:db8::aabb:ccee"          # not handled (differs in the last octet: other solicited-node MAC)
C4 = "192.0.2.7"                    # client
C6 = "2001:db8:1::7"
D4 = "198.51.100.9"                 # denied client
D6 = "2001:db8:dead::9"

KEYS = [(0, 0), (0x06a0a1d63f305e9b, 0xd4d4bcbb7304875f), (0x0123456789abcdef, 0xfedcba9876543210),
        (0xdeadbeefcafef00d, 0x1122334455667788)]


def cfg_plain(logger="none", level=0, key=KEYS[1]):
    return Config(SMAC, None, None, key, logger, level)


def cfg_self(logger="none", level=0, key=KEYS[1], deny=False):
    return Config(SMAC, [S4, S6], [D4, D6] if deny else None, key, logger, level)


def peer4(cip=C4, sip=S4, cmac=CMAC):
    return Peer(cmac, SMAC, cip, sip)


def peer6(cip=C6, sip=S6, cmac=CMAC):
    return Peer(cmac, SMAC, cip, sip)


def rng_for(seed, name):
    return random.Random("%s/%s" % (seed, name))


def rand_ip4(r):
    return "%d.%d.%d.%d" % (r.randint(1, 223), r.randint(0, 255), r.randint(0, 255), r.randint(1, 254))


def rand_ip6(r):
    # avoid forms whose canonical text differs between libraries (v4-mapped / v4-compatible)
    return "2001:db8:%x:%x:%x:%x:%x:%x" % tuple(r.randint(1, 0xffff) for _ in range(6))


def chunks(seq, n):
    for i in range(0, len(seq), n):
        yield seq[i:i + n]
