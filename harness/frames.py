"""Frame encoders (Ethernet / ARP / IPv4 / IPv6 / ICMP / ICMPv6 / TCP / UDP).

Everything built here is re-decoded from raw bytes by the TLA+ specification (module
Wire), so an encoder mistake cannot hide a defect: it only produces a frame that the
specification classifies differently from what the generator intended."""
import ipaddress
import struct


def mac(s):
    if isinstance(s, (bytes, bytearray)):
        return bytes(s)
    return bytes(int(x, 16) for x in s.split(":"))


def ip(s):
    if isinstance(s, (bytes, bytearray)):
        return bytes(s)
    return ipaddress.ip_address(s).packed


def csum(data, init=0):
    if len(data) % 2:
        data = data + b"\0"
    s = init
    for i in range(0, len(data), 2):
        s += (data[i] << 8) | data[i + 1]
    while s >> 16:
        s = (s & 0xFFFF) + (s >> 16)
    return (~s) & 0xFFFF


def eth(dst, src, ethertype, payload=b""):
    return mac(dst) + mac(src) + struct.pack(">H", ethertype) + payload


def arp(op, sha, spa, tha, tpa, htype=1, ptype=0x0800, hlen=6, plen=4, trailer=b""):
    return struct.pack(">HHBBH", htype, ptype, hlen, plen, op) + mac(sha) + ip(spa) + mac(tha) + ip(tpa) + trailer


def ipv4(src, dst, proto, payload, ttl=64, ihl=5, total_len=None, version=4, ident=0x1234, flags_frag=0x4000,
         options=b"", bad_csum=False):
    hl = 20 + len(options)
    if total_len is None:
        total_len = hl + len(payload)
    hdr = struct.pack(">BBHHHBBH", (version << 4) | (ihl & 15), 0, total_len & 0xFFFF, ident, flags_frag, ttl, proto, 0)
    hdr += ip(src) + ip(dst) + options
    c = csum(hdr)
    if bad_csum:
        c ^= 0x5555
    hdr = hdr[:10] + struct.pack(">H", c) + hdr[12:]
    return hdr + payload


def ipv6(src, dst, nh, payload, hlim=64, plen=None, version=6):
    if plen is None:
        plen = len(payload)
    return struct.pack(">IHBB", (version << 28), plen & 0xFFFF, nh, hlim) + ip(src) + ip(dst) + payload


def pseudo(src, dst, proto, length):
    s, d = ip(src), ip(dst)
    if len(s) == 4:
        return s + d + struct.pack(">BBH", 0, proto, length & 0xFFFF)
    return s + d + struct.pack(">IBBBB", length, 0, 0, 0, proto)


def _ones_sum(data):
    if len(data) % 2:
        data = data + b"\0"
    s = 0
    for i in range(0, len(data), 2):
        s += (data[i] << 8) | data[i + 1]
    return s


def l4csum(src, dst, proto, seg):
    s = _ones_sum(pseudo(src, dst, proto, len(seg))) + _ones_sum(seg)
    while s >> 16:
        s = (s & 0xFFFF) + (s >> 16)
    return (~s) & 0xFFFF


def icmp(type_, code, rest=b"", bad_csum=False):
    m = struct.pack(">BBH", type_, code, 0) + rest
    c = csum(m)
    if bad_csum:
        c ^= 0x1111
    return m[:2] + struct.pack(">H", c) + m[4:]


def icmp_echo(ident, seq, data=b"", type_=8, code=0):
    return icmp(type_, code, struct.pack(">HH", ident, seq) + data)


def icmp6(src, dst, type_, code, rest=b""):
    m = struct.pack(">BBH", type_, code, 0) + rest
    c = l4csum(src, dst, 58, m)
    return m[:2] + struct.pack(">H", c) + m[4:]


def nd_ns(src, dst, target, options=b"", code=0):
    return icmp6(src, dst, 135, code, b"\0\0\0\0" + ip(target) + options)


F_FIN, F_SYN, F_RST, F_PSH, F_ACK, F_URG, F_ECE, F_CWR, F_NS = 1, 2, 4, 8, 16, 32, 64, 128, 256


def tcp(src, dst, sport, dport, seq, ack, flags, payload=b"", window=1024, doff=5, options=b"", urg=0):
    off_flags = ((doff & 15) << 12) | (flags & 0x1FF)
    seg = struct.pack(">HHIIHHHH", sport, dport, seq & 0xFFFFFFFF, ack & 0xFFFFFFFF, off_flags, window, 0, urg)
    seg += options + payload
    c = l4csum(src, dst, 6, seg)
    return seg[:16] + struct.pack(">H", c) + seg[18:]


def udp(src, dst, sport, dport, payload=b"", length=None, zero_csum=False):
    if length is None:
        length = 8 + len(payload)
    seg = struct.pack(">HHHH", sport, dport, length & 0xFFFF, 0) + payload
    c = 0 if zero_csum else (l4csum(src, dst, 17, seg) or 0xFFFF)
    return seg[:6] + struct.pack(">H", c) + seg[8:]


class Peer:
    """A client talking to the responder: builds complete Ethernet frames."""

    def __init__(self, cmac, smac, cip, sip):
        self.cmac, self.smac = mac(cmac), mac(smac)
        self.cip, self.sip = ip(cip), ip(sip)
        self.v6 = len(self.cip) == 16

    def l3(self, proto, payload, dmac=None, **kw):
        if self.v6:
            return eth(dmac or self.smac, self.cmac, 0x86DD, ipv6(self.cip, self.sip, proto, payload, **kw))
        return eth(dmac or self.smac, self.cmac, 0x0800, ipv4(self.cip, self.sip, proto, payload, **kw))

    def tcp(self, sport, dport, seq, ack, flags, payload=b"", **kw):
        return self.l3(6, tcp(self.cip, self.sip, sport, dport, seq, ack, flags, payload, **kw))

    def udp(self, sport, dport, payload=b"", **kw):
        return self.l3(17, udp(self.cip, self.sip, sport, dport, payload, **kw))

    def echo(self, ident, seq, data=b"", code=0, type_=None):
        if self.v6:
            t = 128 if type_ is None else type_
            return self.l3(58, icmp6(self.cip, self.sip, t, code, struct.pack(">HH", ident, seq) + data))
        t = 8 if type_ is None else type_
        return self.l3(1, icmp_echo(ident, seq, data, t, code))


# ---- decoding helpers used by generators only (never to judge) ----

def tcp_fields(frame):
    """(flags, seq, ack, payload) of a reply frame built by the responder."""
    et = struct.unpack(">H", frame[12:14])[0]
    off = 34 if et == 0x0800 else 54
    sport, dport, seq, ack, off_flags = struct.unpack(">HHIIH", frame[off:off + 14])
    return {"sport": sport, "dport": dport, "seq": seq, "ack": ack, "flags": off_flags & 0x1FF,
            "payload": frame[off + 20:]}
