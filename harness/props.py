"""One check per property: generate inputs (structured along the specification's decode
tree), execute them on the real responder, validate the recorded executions with TLC."""
import itertools
import struct

import tv
from check import finish
from common import *
from driver import Config
from frames import *
from l7 import *

import gens


def _model(runner, prop, tier, seed, depth):
    """Model-check the reference responder (MCStack) and replay its behaviours into the code."""
    import mc
    cfg = cfg_self(logger="logfmt", deny=True)
    frames, res = mc.run_model(runner, cfg, tier, "%s_mcstack_%s" % (prop, tier), depth=depth)
    if not res["ok"]:
        raise tv.ToolError("the reference model itself fails (%s); see %s" % (res.get("error"), res["log"]))
    runner.mc.append({"model": "MCStack (reference responder, %d concrete frames, depth %d): NoViolation, frame conditions, totality"
                               % (res["frames"], depth),
                      "states": res["distinct"], "transitions": res["generated"], "behaviours_exported": len(res["behaviours"]),
                      "exhaustive": True})
    mc.replay_behaviours(runner, cfg, frames, res["behaviours"], tier, rng_for(seed, "mc" + prop))
    if tier != "quick" and prop in ("C07", "C08", "C09", "C11"):
        long = mc.simulate_model("%s_mcstack_%s" % (prop, tier), len(frames), num=300, depth=60)
        runner.mc.append({"model": "MCStack -simulate (300 random behaviours of up to 60 steps)", "behaviours_exported": len(long),
                          "states": sum(len(h) for h in long), "transitions": sum(len(h) for h in long)})
        mc.replay_long(runner, cfg, frames, long[:400])


MODEL_QUICK = {"C07": 3, "C08": 3, "C09": 3}
# thorough: depth 4 for the properties about the connection table and the gate (their violations need history),
# depth 3 for the others the model can express (their clauses are per frame; depth buys little and costs 100x)
MODEL_THOROUGH = dict({p: 3 for p in ("C02", "C03", "C04", "C05", "C06", "C11", "C12", "C13", "C14", "C15", "C16", "C18", "C19", "C20")},
                      **{p: 4 for p in ("C07", "C08", "C09")})


# Vacuity guard: the outcome actions of the specification (prefixes of the labels printed by
# Stack!OutcomeLabel) that a run of each check must have exercised with validated events.
# A run that misses one did not test its property and is reported as a tool error, not as a pass.
REQUIRED = {
    "C01": ["EthShort", "ArpShort", "Ip4Short", "Ip6Short", "Icmp4Short", "Icmp6Short", "NsShort", "Tcp4Short", "Tcp6Short",
            "Udp4Short", "Udp6Short", "Udp/STUN/any", "Udp/DNS/", "Udp/HTTP/", "Udp/SMB1/", "Udp/SMB2/", "Udp/RPC_UDP/", "Udp/SSH/",
            "TcpDataKnownFlow/", "TcpDataFirstValid/"],
    "C02": ["EthForeignMac", "EthTypeOther", "Ip4Denied", "Ip6Denied", "Ip4NotSelf", "Ip6NotSelf", "Ip4ProtoOther", "Ip6ProtoOther",
            "ArpNotHandled", "NsNotHandled", "ArpReply", "NsAdvert", "Icmp4Echo", "Icmp6Echo", "TcpSynAck"],
    "C03": ["ArpReply", "Icmp4Echo", "Icmp6Echo", "NsAdvert", "TcpSynAck", "TcpFinAck", "TcpDataFirstValid/", "Udp/STUN/must",
            "Udp/DNS/must", "Udp/HTTP/must", "Udp/SSH/must", "Udp/RPC_UDP/must", "Udp/SMB1/must", "Udp/SMB2/must", "Udp/GHOST/must"],
    "C04": ["ArpReply", "Icmp4Echo", "Icmp6Echo", "NsAdvert", "TcpSynAck", "TcpFinAck", "TcpDataFirstValid/", "Udp/STUN/must",
            "Udp/DNS/must", "Udp/HTTP/must", "Udp/RPC_UDP/must", "Udp/SMB1/must", "Udp/SMB2/must"],
    "C05": ["ArpReply", "ArpNotRequest", "ArpNotHandled", "Icmp4Echo", "Icmp4Other", "Icmp4Short", "Icmp6Echo", "Icmp6Other",
            "Icmp6CodeNZ", "NsAdvert", "NsNotHandled", "NsShort"],
    "C06": ["TcpSynAck", "TcpSynRefused", "TcpRstSilent", "TcpSynAckSilent"],
    "C07": ["TcpDataFirstValid/", "TcpDataKnownFlow/", "TcpDataBadCookie", "TcpDataUnboundCookie", "TcpAckSilent", "TcpRstSilent", "TcpFinAck", "TcpSynAck"],
    "C08": ["TcpDataFirstValid/", "TcpDataKnownFlow/HTTP/must", "TcpDataKnownFlow/RPC_TCP/", "TcpDataBadCookie"],
    "C09": ["TcpDataFirstValid/", "TcpDataKnownFlow/", "TcpDataBadCookie", "TcpSynAck", "TcpSynRefused", "TcpAckSilent", "TcpRstSilent",
            "TcpFinAck", "Udp/", "ArpReply", "Icmp4Echo"],
    "C10": ["Udp/HTTP/must", "Udp/STUN/must", "Udp/SSH/must", "Udp/GHOST/must", "Udp/RPC_UDP/must", "Udp/SMB1/must", "Udp/SMB2/must",
            "TcpDataFirstValid/HTTP/must", "TcpDataFirstValid/RPC_TCP/must", "TcpDataFirstValid/SSH/must", "TcpDataFirstValid/SMB1/must",
            "TcpDataFirstValid/SMB2/must", "TcpDataFirstValid/STUN/must", "TcpDataKnownFlow/HTTP/must", "TcpDataKnownFlow/RPC_TCP/must",
            "TcpDataFirstValid/none/mustnot"],
    "C11": ["TcpDataKnownFlow/HTTP/must", "TcpDataKnownFlow/HTTP/mustnot", "TcpDataKnownFlow/RPC_TCP/must", "TcpDataKnownFlow/RPC_TCP/mustnot",
            "TcpDataFirstValid/HTTP/must", "TcpDataFirstValid/RPC_TCP/must", "TcpDataFirstValid/none/mustnot", "TcpDataKnownFlow/none/mustnot"],
    "C12": ["ArpNotRequest", "Icmp4Other", "Icmp6Other", "TcpRstSilent", "TcpSynAckSilent", "TcpSynRefused", "Udp/DNS/mustnot/dns-response",
            "Udp/SMB1/mustnot/smb1-reply-flag", "Udp/SMB2/mustnot/smb2-reply-flag", "TcpDataFirstValid/SMB1/mustnot/smb1-reply-flag"],
    "C13": ["Udp/HTTP/must", "Udp/HTTP/mustnot", "Udp/HTTP/any", "TcpDataFirstValid/HTTP/must", "TcpDataFirstValid/HTTP/mustnot",
            "TcpDataKnownFlow/HTTP/must", "TcpDataFirstValid/none/mustnot", "TcpDataKnownFlow/HTTP/must/http-later-request-completed-by-this-segment"],
    "C14": ["Udp/DNS/must/dns-in-a-query", "Udp/DNS/mustnot/dns-question-not-in-a", "Udp/DNS/mustnot/dns-truncated", "Udp/DNS/any"],
    "C15": ["Udp/STUN/must/stun-binding-request", "Udp/STUN/any/stun-malformed", "TcpDataFirstValid/STUN/must"],
    "C16": ["Udp/RPC_UDP/must/rpc-call", "Udp/RPC_UDP/any", "TcpDataFirstValid/RPC_TCP/must",
            "TcpDataKnownFlow/RPC_TCP/must/rpc-later-call-completed-by-this-segment", "TcpDataKnownFlow/RPC_TCP/mustnot/rpc-reply-message-on-an-open-flow"],
    "C17": ["Udp/SMB1/must/smb1-negotiate", "Udp/SMB1/must/smb1-session-setup", "Udp/SMB2/must/smb2-negotiate", "Udp/SMB2/must/smb2-session-setup",
            "Udp/SMB1/mustnot/smb1-reply-flag", "Udp/SMB1/mustnot/smb1-other-command", "Udp/SMB2/mustnot/smb2-reply-flag",
            "Udp/SMB2/mustnot/smb2-other-command", "Udp/SMB2/mustnot/smb2-no-supported-dialect", "TcpDataFirstValid/SMB1/must", "TcpDataFirstValid/SMB2/must",
            "TcpDataKnownFlow/SMB1/must/smb1-session-setup", "TcpDataKnownFlow/SMB2/must/smb2-session-setup"],
    "C18": ["Udp/SSH/must", "Udp/SSH/mustnot", "Udp/GHOST/must", "TcpDataFirstValid/SSH/must", "TcpDataFirstValid/SSH/mustnot", "TcpDataFirstValid/GHOST/must"],
    "C19": ["Udp/HTTP/must", "Udp/STUN/must", "Udp/DNS/", "Udp/RPC_UDP/must", "Udp/SMB1/must", "Udp/SMB2/must", "Udp/SSH/must", "Udp/GHOST/must",
            "TcpDataFirstValid/HTTP/must", "TcpDataFirstValid/RPC_TCP/must"],
    "C20": ["EthShort", "EthForeignMac", "EthTypeOther", "ArpShort", "ArpReply", "ArpNotRequest", "Ip4Short", "Ip6Short", "Ip4Denied", "Ip6Denied",
            "Ip4NotSelf", "Ip6NotSelf", "Ip4ProtoOther", "Ip6ProtoOther", "Icmp4Short", "Icmp4Echo", "Icmp4Other", "Icmp6Echo", "Icmp6Other",
            "Icmp6CodeNZ", "NsAdvert", "NsNotHandled", "NsShort", "Tcp4Short", "Tcp6Short", "Udp4Short", "Udp6Short", "TcpSynAck", "TcpFinAck",
            "TcpAckSilent", "TcpRstSilent", "TcpSynAckSilent", "TcpSynRefused", "TcpOtherFlags", "TcpDataUnboundCookie", "TcpDataFirstValid/", "Udp/"],
}


def _vacuity(prop, outcomes):
    return [q for q in REQUIRED.get(prop, []) if not any(k.startswith(q) for k in outcomes)]


def _run(runner, prop, tier, seed, t0, rule, level="model_checking", jobs=12, extra_cov=None, chunk_events=1500):
    gens.known_witnesses(runner, prop)
    depth = (MODEL_QUICK if tier == "quick" else MODEL_THOROUGH).get(prop)
    if depth:
        _model(runner, prop, tier, seed, depth)
    runner.flush(jobs=jobs, chunk_events=chunk_events)
    missing = _vacuity(prop, runner.res["outcomes"])
    extra = dict(extra_cov or {})
    extra["required_outcome_actions"] = REQUIRED.get(prop, [])
    extra["required_outcome_actions_missing"] = missing
    rc = finish(prop, tier, seed, runner, runner.res, t0, level, rule, extra_cov=extra)
    if rc == 0 and missing:
        print("TOOL-ERROR: vacuous run, outcome actions never exercised: %s" % ", ".join(missing))
        return 2
    return rc


def check_C02(runner, tier, seed, t0):
    gens.gen_scope(runner, tier, seed)
    return _run(runner, "C02", tier, seed, t0,
                "Configurations {self-IP list absent, {v4}, {v4,v6}} x {deny absent, {d4}, {d4,d6}} x 13 destination MACs "
                "(own, broadcast, all-nodes, derived multicast of members and of non-members, RFC 1112 bit-23 twin, foreign, zero) "
                "x 9 request kinds x source denied/allowed x destination handled/unhandled; all 256 next-header values and "
                "random EtherTypes.")


def check_C03(runner, tier, seed, t0):
    gens.gen_mirror(runner, tier, seed)
    return _run(runner, "C03", tier, seed, t0,
                "Random address/port tuples x every replying protocol x both IP versions; ports {0,1,65534,65535} "
                "for the STUN change-port wrap; every reply's address/port tuple is compared with the request's mirror image.")


def check_C04(runner, tier, seed, t0):
    gens.gen_wellformed(runner, tier, seed)
    return _run(runner, "C04", tier, seed, t0,
                "Echo payload sizes (every length in the tier's range, odd and even), jumbo requests, DNS names of every length, "
                "STUN/RPC/SMB/HTTP/SSH replies over UDP and TCP on both IP versions, and an adaptive zero-checksum search "
                "(the transaction id / echo id is set to the first reply's checksum so that the recomputed checksum is 0). "
                "All checksums are recomputed in TLA+ from the recorded bytes.")


def check_C05(runner, tier, seed, t0):
    gens.gen_arp_nd_echo(runner, tier, seed)
    return _run(runner, "C05", tier, seed, t0,
                "ARP operations, hardware/protocol types, handled/unhandled targets; ICMPv4 and ICMPv6 (type, code) sweeps; "
                "echo data lengths; neighbour solicitations with 0..3 options, handled/unhandled targets, codes.")


def check_C06(runner, tier, seed, t0):
    gens.gen_syn(runner, tier, seed)
    return _run(runner, "C06", tier, seed, t0,
                "All 512 values of the 9 TCP flag bits x payload {none, 3 bytes} x sequence numbers incl. 0xffffffff x "
                "{IPv4, IPv6} x histories {fresh, same flow validated, other flows active}; cookie determinism on "
                "retransmissions and sensitivity on tuples differing in exactly one input (confirmed under three keys).")


def check_C20(runner, tier, seed, t0):
    gens.gen_log(runner, tier, seed)
    return _run(runner, "C20", tier, seed, t0,
                "One or more frames for every outcome action of the specification (all layers and drop reasons) under both "
                "log formats; the logger lines printed between two driver answers are tokenised and compared with the "
                "recv/terminal balance, nesting, fate and field values the specification derives from the frame.")


def check_C07(runner, tier, seed, t0):
    gens.gen_tcp_gate(runner, tier, seed)
    return _run(runner, "C07", tier, seed, t0,
                "Seeded interleavings of per-flow scripts on 12 flows per round (both IP versions, initial sequence numbers "
                "straddling 2^32): data before any SYN, SYN, data with acknowledgement in {0, cookie, cookie+2, cookie+2^16, "
                "cookie+1 xor 2^31, random}, bare ACK / RST / FIN|ACK / RST|ACK, the valid first segment (empty, 1 byte, partial, "
                "complete; extra flags FIN/URG/SYN/RST/ECE/NS), retransmitted SYN, continuation segments, noise traffic. "
                "Every step is compared with the reference connection model of Stack.tla.")


def check_C08(runner, tier, seed, t0):
    gens.gen_interference(runner, tier, seed)
    return _run(runner, "C08", tier, seed, t0,
                "2..16 concurrent flows sending partial HTTP / ONC-RPC requests cut at seeded positions, interleaved in seeded "
                "orders with ARP, ICMP, UDP (incl. the same 4-tuple over UDP) and non-data TCP; the specification keys all "
                "connection state by the 4-tuple, so any cross-flow influence in the code is a non-conforming step.",
                )


def check_C09(runner, tier, seed, t0):
    gens.gen_flood(runner, tier, seed)
    return _run(runner, "C09", tier, seed, t0,
                "Floods of SYNs with all flag combinations from distinct tuples, data segments with wrong acknowledgements, "
                "FIN/RST/ACK, UDP of every protocol, ICMP, ARP, interleaved with genuine validations (repeated per flow); "
                "the real table size reported after every frame must equal the number of validated flows of the model.")


def check_C11(runner, tier, seed, t0):
    gens.gen_segmentation(runner, tier, seed)
    return _run(runner, "C11", tier, seed, t0,
                "HTTP and ONC-RPC requests sent unsplit, with every 1-cut, with 2-cuts (all in the thorough tier), byte by "
                "byte and with seeded k-cuts, flows interleaved round-robin; the specification judges the accumulated stream, "
                "so the verdict for a segment cannot depend on where the cuts are.")


def check_C13(runner, tier, seed, t0):
    gens.gen_http(runner, tier, seed)
    return _run(runner, "C13", tier, seed, t0,
                "Requests generated from the request grammar (all nine methods, targets incl. non-UTF-8 bytes, versions, 0..5 "
                "headers, CRLF and bare LF) and every single-token fault of each (delete, duplicate, substitute), over UDP and as "
                "first TCP segment on random ports, a sample byte by byte; tri-state classification by the Strict/Loose automata "
                "of Http.tla, response relation Http401Fails.")


def check_C14(runner, tier, seed, t0):
    gens.gen_dns(runner, tier, seed)
    return _run(runner, "C14", tier, seed, t0,
                "Queries over ids, flag words (every bit alone, random words), 0..4 questions, label layouts up to the 255-byte "
                "limit, destination addresses; faults: other types/classes, truncation at every byte, extra sections, lying "
                "counts, trailing bytes; relation DnsAnswerFails (echo, one IN/A answer per question with the queried address, "
                "counts match, parses completely).")


def check_C15(runner, tier, seed, t0):
    gens.gen_stun(runner, tier, seed)
    return _run(runner, "C15", tier, seed, t0,
                "Binding requests with and without magic cookie, 0..4 attributes of known/unknown types, CHANGE-REQUEST flag "
                "combinations, source/destination ports incl. 0 and 65535, both IP versions, random source addresses; other "
                "classes and methods; malformed TLVs and lying lengths (unspecified for the answer, counted for the abort check).")


def check_C16(runner, tier, seed, t0):
    gens.gen_rpc(runner, tier, seed)
    return _run(runner, "C16", tier, seed, t0,
                "Calls over programs of the portmapper range, versions {0..5, 104316, 2^32-1}, procedures, credential lengths "
                "{0,4,8,400} (and non-aligned ones, unspecified), destination addresses/ports incl. 0 and 65535, UDP and TCP, "
                "IPv4 and IPv6; relation RpcReplyFails (xid, accepted, null verifier, XDR, record mark, precedence table, "
                "advertised endpoint).")


def check_C17(runner, tier, seed, t0):
    gens.gen_smb(runner, tier, seed)
    return _run(runner, "C17", tier, seed, t0,
                "SMB1/SMB2 negotiate and session-setup requests with random correlation ids, flags with and without the reply "
                "bit, dialect lists (order, count, duplicates, unknown dialects, none supported), blob lengths 1..300, all "
                "commands, truncations; relations S1ReplyFails / S2ReplyFails.")


def check_C18(runner, tier, seed, t0):
    gens.gen_ssh_ghost(runner, tier, seed)
    return _run(runner, "C18", tier, seed, t0,
                "Identification strings over version strings, software/comment strings from an alphabet with lone CR, NUL, "
                ">=0x80 and SP, terminators {CRLF, LF, CR, none, CR CR LF, LF CR}, trailing data; Gh0st tails of every length; "
                "the zlib body of each Gh0st reply is inflated by the harness and the length handed to the specification.")


def check_C12(runner, tier, seed, t0):
    gens.gen_replies(runner, tier, seed)
    return _run(runner, "C12", tier, seed, t0,
                "Reply-typed messages of every protocol (ARP replies, echo replies, neighbour advertisements, SYN|ACK / RST "
                "segments, DNS QR=1, STUN indications and responses, SMB with the reply flag, ONC-RPC replies), generated and "
                "the responder's own outputs re-addressed to it (MAC/IP/ports swapped; over TCP re-sent on validated flows), "
                "reflection chains followed to depth 6.")


def check_C19(runner, tier, seed, t0):
    gens.gen_ports(runner, tier, seed)
    return _run(runner, "C19", tier, seed, t0,
                "Every payload (answered and unanswered ones of all protocols) is sent under several (source port, destination "
                "port, IP version, addresses) contexts as one group; TLC compares, within a group, answered-ness, responder and "
                "the reply bytes after masking (AppCanon) exactly the fields the statement lists.")


def check_C10(runner, tier, seed, t0):
    import smack
    prod = smack.run_product(runner.driver(0), "C10_mcsmack_%s" % tier)
    runner.mc.append({"model": "MCSmack (compiled matcher dumped from the running binary x reference signature automaton)",
                      "states": prod["distinct"], "transitions": prod["generated"], "matcher_states": prod["matcher_states"],
                      "exhaustive": True, "disagreements": len(prod["mismatches"])})
    gens.gen_identification(runner, tier, seed, prod["mismatches"])
    mism = [{"mode": m["mode"], "witness": m["witness"].hex(), "matcher": m["matcher"], "reference": m["reference"]} for m in prod["mismatches"]]
    return _run(runner, "C10", tier, seed, t0,
                "TLC explores the complete product of the compiled matcher (dumped from the running binary) with the reference "
                "signature automaton over joint byte classes, in stream and datagram mode: complete for all byte strings of every "
                "length.  Every matcher-level disagreement is then put to the test on the real stack (witness alone, overlaid on and "
                "followed by valid requests of every protocol, over UDP and TCP) and clean requests of every signature are sent with "
                "every wildcard position swept over byte values; a disagreement counts only if it changes who answers.",
                extra_cov={"exhaustive": True, "matcher_reference_disagreements": mism[:200]})


def check_C01(runner, tier, seed, t0):
    gens.gen_crash(runner, tier, seed)
    panics = sum(s.panics for s in runner.sessions)
    rc = _run(runner, "C01", tier, seed, t0,
              "Configuration matrix {self-IP list} x {deny list} x {no logger, console, logfmt} x {5 verbosity levels} (a covering "
              "subset in the quick tier); per configuration: seed frames of every protocol and drop reason, their spec-structured "
              "mutations (truncation to every length, every header / leading application 16-bit word at boundary values, every byte "
              "at 0 / 0xff / top bit flipped, type bytes swept 0..255, random splices, extension to the 4096-byte buffer), and "
              "histories: mutated continuation segments on validated flows holding partial parser state.  A frame is non-trivial "
              "when it takes a distinct outcome action of the specification.",
              level="exploration", extra_cov={"aborts_observed": panics})
    return rc
