"""One check per property: generate inputs (structured along the specification's decode
tree), execute them on the real responder, validate the recorded executions with TLC."""
import itertools
import struct

import tv
from check import finish
from common import *
from driver import Config
from frames import *
from l7 import *

import gens


def _run(runner, prop, tier, seed, t0, rule, level="model_checking", jobs=12, extra_cov=None, chunk_events=1500):
    sessions = [s.records for s in runner.sessions]
    res = tv.validate("%s_%s" % (prop, tier), sessions, focus=prop, jobs=jobs, chunk_events=chunk_events)
    return finish(prop, tier, seed, runner, res, t0, level, rule, extra_cov=extra_cov)


def check_C02(runner, tier, seed, t0):
    gens.gen_scope(runner, tier, seed)
    return _run(runner, "C02", tier, seed, t0,
                "Configurations {self-IP list absent, {v4}, {v4,v6}} x {deny absent, {d4}, {d4,d6}} x 13 destination MACs "
                "(own, broadcast, all-nodes, derived multicast of members and of non-members, RFC 1112 bit-23 twin, foreign, zero) "
                "x 9 request kinds x source denied/allowed x destination handled/unhandled; all 256 next-header values and "
                "random EtherTypes.")


def check_C03(runner, tier, seed, t0):
    gens.gen_mirror(runner, tier, seed)
    return _run(runner, "C03", tier, seed, t0,
                "Random address/port tuples x every replying protocol x both IP versions; ports {0,1,65534,65535} "
                "for the STUN change-port wrap; every reply's address/port tuple is compared with the request's mirror image.")


def check_C04(runner, tier, seed, t0):
    gens.gen_wellformed(runner, tier, seed)
    return _run(runner, "C04", tier, seed, t0,
                "Echo payload sizes (every length in the tier's range, odd and even), jumbo requests, DNS names of every length, "
                "STUN/RPC/SMB/HTTP/SSH replies over UDP and TCP on both IP versions, and an adaptive zero-checksum search "
                "(the transaction id / echo id is set to the first reply's checksum so that the recomputed checksum is 0). "
                "All checksums are recomputed in TLA+ from the recorded bytes.")


def check_C05(runner, tier, seed, t0):
    gens.gen_arp_nd_echo(runner, tier, seed)
    return _run(runner, "C05", tier, seed, t0,
                "ARP operations, hardware/protocol types, handled/unhandled targets; ICMPv4 and ICMPv6 (type, code) sweeps; "
                "echo data lengths; neighbour solicitations with 0..3 options, handled/unhandled targets, codes.")


def check_C06(runner, tier, seed, t0):
    gens.gen_syn(runner, tier, seed)
    return _run(runner, "C06", tier, seed, t0,
                "All 512 values of the 9 TCP flag bits x payload {none, 3 bytes} x sequence numbers incl. 0xffffffff x "
                "{IPv4, IPv6} x histories {fresh, same flow validated, other flows active}; cookie determinism on "
                "retransmissions and sensitivity on tuples differing in exactly one input (confirmed under three keys).")


def check_C20(runner, tier, seed, t0):
    gens.gen_log(runner, tier, seed)
    return _run(runner, "C20", tier, seed, t0,
                "One or more frames for every outcome action of the specification (all layers and drop reasons) under both "
                "log formats; the logger lines printed between two driver answers are tokenised and compared with the "
                "recv/terminal balance, nesting, fate and field values the specification derives from the frame.")
