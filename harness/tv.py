"""Trace validation: hand recorded executions to TLC (spec/Trace.tla) and collect its verdicts."""
import concurrent.futures
import json
import os
import re
import shutil
import subprocess
import sys
import time

VERIF = os.path.dirname(os.path.dirname(os.path.abspath(__file__)))
SPEC = os.path.join(VERIF, "spec")
WORK = os.path.join(VERIF, "work")
TLA_CP = "/opt/veriftools/tla/tla2tools.jar:/opt/veriftools/tla/CommunityModules-deps.jar"

VERDICT_RE = re.compile(r'^<<\s*"(VERDICT|KNOWN|STEP)",\s*(\d+),\s*(.*)>>$')


def tlc_tuples(out):
    """TLC wraps printed values at 80 columns: re-join tuples that span several lines."""
    buf = None
    for ln in out.splitlines():
        t = ln.strip()
        if buf is None:
            if t.startswith("<<"):
                buf = t
            else:
                continue
        else:
            buf += " " + t
        if buf.endswith(">>"):
            yield buf
            buf = None


class ToolError(Exception):
    pass


def known_keys(focus="ALL"):
    """Keys of the listed known findings (KNOWN_FINDINGS.txt, never written at run time);
    for a single-property run only the findings listed for that property."""
    keys = []
    path = os.path.join(VERIF, "KNOWN_FINDINGS.txt")
    if os.path.exists(path):
        for ln in open(path):
            ln = ln.strip()
            if ln.startswith("known:"):
                m = re.search(r"key=(\S+)", ln)
                pm = re.search(r"property=(\S+)", ln)
                if m and (focus == "ALL" or (pm and pm.group(1) == focus)):
                    keys.append(m.group(1))
    return sorted(set(keys))


def known_entries():
    out = []
    path = os.path.join(VERIF, "KNOWN_FINDINGS.txt")
    if os.path.exists(path):
        for ln in open(path):
            ln = ln.strip()
            if ln.startswith("known:"):
                d = {"line": ln}
                for k in ("property", "key"):
                    m = re.search(k + r"=(\S+)", ln)
                    d[k] = m.group(1) if m else None
                m = re.search(r"key=\S+\s+(.*)$", ln)
                d["what"] = m.group(1) if m else ln
                out.append(d)
    return out


def prepare_dir(name, focus="ALL"):
    d = os.path.join(WORK, name)
    if os.path.isdir(d):
        shutil.rmtree(d, ignore_errors=True)
    os.makedirs(d)
    for f in os.listdir(SPEC):
        if f.endswith(".tla") or f.endswith(".cfg"):
            shutil.copy(os.path.join(SPEC, f), os.path.join(d, f))
    with open(os.path.join(d, "known.json"), "w") as fh:
        json.dump(known_keys(focus), fh)
    return d


def run_tlc(workdir, module, cfg, env_extra=None, workers=1, xmx="3g", timeout=900, extra=None):
    env = dict(os.environ)
    env["JAVA_TOOL_OPTIONS"] = "-Xss1g"
    env.update(env_extra or {})
    for k in ("TRACE", "FOCUS", "KNOWN", "FRAMES", "COOKIES", "MCCFG", "MCDEPTH"):
        if k not in (env_extra or {}):
            env.pop(k, None)
    meta = os.path.join(workdir, "states_" + module + "_" + str(os.getpid()) + "_" + str(time.time_ns()))
    cmd = ["java", "-XX:+UseParallelGC", "-Xmx" + xmx, "-cp", TLA_CP, "tlc2.TLC",
           "-workers", str(workers), "-metadir", meta, "-cleanup", "-noGenerateSpecTE",
           "-checkpoint", "0",          # a checkpoint of a behaviour longer than 65535 states makes TLC give up

           "-config", cfg, module] + (extra or [])
    try:
        p = subprocess.run(cmd, cwd=workdir, env=env, stdout=subprocess.PIPE, stderr=subprocess.STDOUT,
                           text=True, timeout=timeout)
    except subprocess.TimeoutExpired:
        raise ToolError("TLC timed out after %ds on %s" % (timeout, module))
    finally:
        shutil.rmtree(meta, ignore_errors=True)
    return p.returncode, p.stdout


def _parse_tuple_tail(s):
    # s like:  "C04", "udp6-zero-checksum", "Udp"   -> list of strings
    return re.findall(r'"((?:[^"\\]|\\.)*)"', s)


def validate_chunk(workdir, idx, records, focus="ALL", timeout=900):
    """Validate one chunk (a list of records starting with a cfg record).  Returns
    (verdicts, knowns, steps, stats, raw_output)."""
    timeout = max(timeout, 900 + len(records) // 4)          # very long uncut sessions get more time
    path = os.path.join(workdir, "trace_%d.ndjson" % idx)
    with open(path, "w") as fh:
        for r in records:
            fh.write(json.dumps(r, separators=(",", ":")) + "\n")
    rc, out = run_tlc(workdir, "Trace.tla", "Trace.cfg",
                      {"TRACE": path, "FOCUS": focus, "KNOWN": os.path.join(workdir, "known.json")}, timeout=timeout)
    verdicts, knowns, steps = [], [], {}
    for ln in tlc_tuples(out):
        m = VERDICT_RE.match(ln)
        if not m:
            continue
        kind, i, tail = m.group(1), int(m.group(2)), _parse_tuple_tail(m.group(3))
        if kind == "VERDICT":
            verdicts.append((i, tail[0], tail[1], tail[2]))
        elif kind == "KNOWN":
            knowns.append((i, tail[0], tail[1]))
        else:
            steps[i] = tail[0]
    stats = {}
    m = re.search(r"(\d+) states generated, (\d+) distinct states found", out)
    if m:
        stats["generated"], stats["distinct"] = int(m.group(1)), int(m.group(2))
    consumed = len(steps)
    complete = consumed == len(records)
    if not complete or (rc != 0 and not verdicts):
        # anything but "postcondition violated because of verdicts" is a tool/spec error
        with open(os.path.join(workdir, "tlc_error_%d.log" % idx), "w") as fh:
            fh.write(out)
        raise ToolError("TLC did not consume the whole trace (%d of %d records) or failed (rc=%d); see %s"
                        % (consumed, len(records), rc, os.path.join(workdir, "tlc_error_%d.log" % idx)))
    return sorted(set(verdicts)), sorted(set(knowns)), steps, stats, out


def split_session(records, chunk_events):
    """Cut a long session at its table resets.  Returns a list of (offset, piece); every piece
    starts with the configuration in force.  Cookie bindings, groups and pairs are not carried
    over a cut: that only makes the later piece's expectations weaker, never wrong."""
    if len(records) <= 2 * chunk_events:
        return [(0, records)]
    # (TLC cannot checkpoint a behaviour longer than 65535 states: checkpoints are switched off in run_tlc)
    out = []
    cfgrec = records[0]
    start, start_cfg = 0, records[0]
    for ri in range(1, len(records)):
        r = records[ri]
        if r.get("ev") == "cfg":
            cfgrec = r
        if r.get("ev") == "reset" and ri - start >= chunk_events:
            piece = records[start:ri]
            out.append((start, piece if start == 0 else [start_cfg] + piece))
            start, start_cfg = ri, cfgrec
    piece = records[start:]
    out.append((start, piece if start == 0 else [start_cfg] + piece))
    return out


def validate(name, sessions, focus="ALL", jobs=12, chunk_events=1500, timeout=900):
    """sessions: list of lists of records; each session starts with a cfg record (and is
    independent of the others: the driver was reset before it).  Returns a dict with
    verdicts [(session, index_in_session, prop, tag, outcome)], knowns, per-outcome counts."""
    workdir = prepare_dir(name, focus)
    chunks, cur, cur_map = [], [], []
    maps = []
    for si, sess in enumerate(sessions):
        for (off, piece) in split_session(sess, chunk_events):
            if cur and len(cur) + len(piece) > chunk_events:
                chunks.append(cur)
                maps.append(cur_map)
                cur, cur_map = [], []
            for pi, r in enumerate(piece):
                cur.append(r)
                # index of this record in the original session (the injected cfg record maps to the cut)
                cur_map.append((si, pi if off == 0 else off + pi - 1))
    if cur:
        chunks.append(cur)
        maps.append(cur_map)
    res = {"verdicts": [], "knowns": [], "outcomes": {}, "states": 0, "transitions": 0, "events": 0, "chunks": len(chunks)}
    t0 = time.time()
    with concurrent.futures.ThreadPoolExecutor(max_workers=max(1, min(jobs, len(chunks) or 1))) as ex:
        futs = {ex.submit(validate_chunk, workdir, i, c, focus, timeout): i for i, c in enumerate(chunks)}
        for fu in concurrent.futures.as_completed(futs):
            i = futs[fu]
            verdicts, knowns, steps, stats, _ = fu.result()
            for (l, prop, tag, outcome) in verdicts:
                si, ri = maps[i][l - 1]
                res["verdicts"].append((si, ri, prop, tag, outcome))
            for (l, key, outcome) in knowns:
                si, ri = maps[i][l - 1]
                res["knowns"].append((si, ri, key, outcome))
            for l, o in steps.items():
                res["outcomes"][o] = res["outcomes"].get(o, 0) + 1
            res["states"] += stats.get("distinct", 0)
            res["transitions"] += stats.get("generated", 0)
            res["events"] += len(chunks[i])
            try:
                os.remove(os.path.join(workdir, "trace_%d.ndjson" % i))
            except OSError:
                pass
    res["verdicts"].sort()
    res["knowns"].sort()
    res["wall_s"] = time.time() - t0
    res["workdir"] = workdir
    return res
