"""Application payload builders (requests only; no oracle lives here)."""
import struct

HTTP_VERBS = ["GET", "PUT", "POST", "HEAD", "DELETE", "CONNECT", "OPTIONS", "TRACE", "PATCH"]


def http_request(verb="GET", target=b"/", version=b"HTTP/1.1", headers=(), eol=b"\r\n", body=b""):
    if isinstance(verb, str):
        verb = verb.encode()
    out = verb + b" " + target + b" " + version + eol
    for h in headers:
        out += h + eol
    return out + eol + body


def ssh_ident(version=b"2.0", software=b"OpenSSH_8.9", comment=None, term=b"\r\n", tail=b""):
    s = b"SSH-" + version + b"-" + software
    if comment is not None:
        s += b" " + comment
    return s + term + tail


def ghost(tail=b""):
    return b"Gh0st" + tail


STUN_MAGIC = b"\x21\x12\xa4\x42"


def stun_attr(type_, value, pad=True):
    v = value + (b"\0" * ((4 - len(value) % 4) % 4) if pad else b"")
    return struct.pack(">HH", type_, len(value)) + v


def stun(type_=0x0001, txid=b"\0" * 16, attrs=b"", length=None):
    if length is None:
        length = len(attrs)
    return struct.pack(">HH", type_, length & 0xFFFF) + txid + attrs


def stun_change_request(change_ip=False, change_port=True):
    return stun_attr(0x0003, struct.pack(">I", (4 if change_ip else 0) | (2 if change_port else 0)))


def dns_name(labels):
    out = b""
    for l in labels:
        out += bytes([len(l)]) + l
    return out + b"\0"


def dns_query(id_=0x1234, flags=0x0100, questions=((b"example", b"com"),), qtypes=None, counts=None, tail=b""):
    qs = b""
    for i, q in enumerate(questions):
        t, c = (1, 1) if qtypes is None else qtypes[i]
        qs += (q if isinstance(q, (bytes, bytearray)) else dns_name(q)) + struct.pack(">HH", t, c)
    qd, an, ns, ar = counts if counts is not None else (len(questions), 0, 0, 0)
    return struct.pack(">HHHHHH", id_, flags, qd, an, ns, ar) + qs + tail


def xdr_opaque(b):
    return struct.pack(">I", len(b)) + b + b"\0" * ((4 - len(b) % 4) % 4)


def rpc_call(xid=0x12345678, prog=100000, vers=2, proc=3, cred=b"", verf=b"", args=b"", mtype=0, rpcvers=2,
             cred_flavor=0, verf_flavor=0, tcp=False, last=True):
    m = struct.pack(">IIIIII", xid, mtype, rpcvers, prog, vers, proc)
    m += struct.pack(">I", cred_flavor) + xdr_opaque(cred)
    m += struct.pack(">I", verf_flavor) + xdr_opaque(verf)
    m += args
    if tcp:
        m = struct.pack(">I", (0x80000000 if last else 0) | len(m)) + m
    return m


def nbt(payload, length=None, type_=0):
    n = len(payload) if length is None else length
    return bytes([type_, (n >> 16) & 1]) + struct.pack(">H", n & 0xFFFF) + payload


def smb1_header(cmd, flags=0x18, flags2=0xc853, pid_high=0, tid=0, pid_low=0xfeff, uid=0, mid=0, status=0):
    return (b"\xffSMB" + bytes([cmd]) + struct.pack("<I", status) + bytes([flags]) + struct.pack("<HH", flags2, pid_high)
            + b"\0" * 8 + b"\0\0" + struct.pack("<HHHH", tid, pid_low, uid, mid))


def smb1_negotiate(dialects=(b"NT LM 0.12",), byte_count=None, **hdr):
    body = b"".join(b"\x02" + d + b"\0" for d in dialects)
    bc = len(body) if byte_count is None else byte_count
    return nbt(smb1_header(0x72, **hdr) + b"\0" + struct.pack("<H", bc) + body)


def smb1_session_setup(blob=b"\x60\x28" + b"A" * 40, tail=b"W\0i\0n\0\0\0", word_count=12, **hdr):
    words = (b"\xff\0" + struct.pack("<H", 0) + struct.pack("<HHH", 0xffff, 2, 1) + struct.pack("<I", 0)
             + struct.pack("<H", len(blob)) + b"\0" * 4 + struct.pack("<I", 0xa00000d4))
    data = blob + tail
    return nbt(smb1_header(0x73, **hdr) + bytes([word_count]) + words + struct.pack("<H", len(data)) + data)


def smb2_header(cmd, flags=0, message_id=0, async_id=0, session_id=0, credit_charge=0, credits=1, status=0, next_cmd=0):
    return (b"\xfeSMB" + struct.pack("<HHIHHII", 64, credit_charge, status, cmd, credits, flags, next_cmd)
            + struct.pack("<QQQ", message_id, async_id, session_id) + b"\0" * 16)


def smb2_negotiate(dialects=(0x0202, 0x0210), count=None, guid=b"G" * 16, **hdr):
    n = len(dialects) if count is None else count
    body = struct.pack("<HHHHI", 36, n, 1, 0, 0x7f) + guid + b"\0" * 8
    body += b"".join(struct.pack("<H", d) for d in dialects)
    return nbt(smb2_header(0, **hdr) + body)


def smb2_session_setup(blob=b"\x60\x28" + b"B" * 40, prev=0, **hdr):
    body = struct.pack("<HBBIIHHQ", 25, 0, 1, 1, 0, 88, len(blob), prev) + blob
    return nbt(smb2_header(1, **hdr) + body)
