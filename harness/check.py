#!/usr/bin/env python3
"""./check <ID> <quick|thorough> [--seed N]      run the check of one property
   ./check <ID> --replay <file>                  re-execute a replay file

Exit 0: the property held on everything explored (KNOWN-FINDING lines may be printed);
exit 1: a line "VIOLATION property=<id> replay=<path>" was printed;
exit 2: tool error, build failure or timeout - never a verdict."""
import json
import os
import sys
import time
import traceback

sys.path.insert(0, os.path.dirname(os.path.abspath(__file__)))

import tv                                    # noqa: E402
from build import build                      # noqa: E402
from driver import Driver, Config            # noqa: E402
from session import Session                  # noqa: E402

VERIF = os.path.dirname(os.path.dirname(os.path.abspath(__file__)))
EVID = os.path.join(VERIF, "evidence")
REPLAYS = os.path.join(VERIF, "replays")


class Runner:
    """Holds the drivers (one per diagnostic level / profile) and the sessions of a run."""

    def __init__(self, prop, tier, seed, release=False):
        self.prop, self.tier, self.seed = prop, tier, seed
        self.drivers = {}
        self.sessions = []
        self.release = release
        self.notes = {}
        self.mc = []              # model-checking runs: dicts with states/transitions/...
        self.flushed = 0          # sessions already validated (their records are dropped)
        self.res = None           # merged validation results
        self.violations = []
        self.seen_clauses = set()
        self.samples = []
        self.frames_run = 0
        self.nflush = 0

    def driver(self, level=0, release=False):
        k = (level, release)
        if k not in self.drivers:
            self.drivers[k] = Driver(level=level, release=release)
        return self.drivers[k]

    def session(self, cfg, label="", release=False):
        s = Session(self.driver(cfg.level, release), cfg, label)
        self.sessions.append(s)
        return s

    def flush(self, jobs=12, chunk_events=1500):
        """Validate the sessions recorded since the last flush with TLC, keep verdicts, replay
        files and samples, and drop their records (long thorough runs stay within memory)."""
        pending = self.sessions[self.flushed:]
        if not pending:
            return
        self.nflush += 1
        res = tv.validate("%s_%s_%d" % (self.prop, self.tier, self.nflush), [s.records for s in pending],
                          focus=self.prop, jobs=jobs, chunk_events=chunk_events)
        v, k, smp = materialise(self.prop, self, res, base=self.flushed)
        self.violations += v
        self.samples += smp
        self.frames_run += sum(1 for s in pending for r in s.records if r.get("ev") == "frame")
        # session indices in verdicts are relative to this flush: make them absolute
        res["verdicts"] = [(si + self.flushed,) + tuple(rest) for (si, *rest) in res["verdicts"]]
        res["knowns"] = [(si + self.flushed,) + tuple(rest) for (si, *rest) in res["knowns"]]
        self.res = merge(self.res, res)
        for s in pending:
            s.records = s.records[:2]
            s.frames = []
        self.flushed = len(self.sessions)

    def close(self):
        for d in self.drivers.values():
            d.stop()


def hexs(b, limit=96):
    h = bytes(b).hex()
    return h if len(h) <= 2 * limit else h[:2 * limit] + "...(%d bytes)" % len(b)


def write_replay(prop, sess, idx, clause, outcome, extra=None):
    """Cut a replay file: the session's configuration and frames up to the failing one."""
    os.makedirs(REPLAYS, exist_ok=True)
    frames = sess.frames[:idx - 1]                # records[0..1] are cfg/reset; frames parallel records[2:]
    doc = {"property": prop, "clause": clause, "outcome": outcome, "config": sess.cfg.describe(),
           "frames": [({"cfg": f[1]} if isinstance(f, tuple) else f.hex()) if f is not None else None for f in frames],
           "failing_index": len(frames) - 1, "label": sess.label}
    rec = sess.records[idx]
    doc["observed"] = {"out": rec.get("out"), "rep": bytes(rec.get("rep", [])).hex(), "tcb": rec.get("tcb"),
                       "panic": rec.get("panic"), "log": [(e["layer"], e["verb"]) for e in rec.get("log", [])]}
    if extra:
        doc.update(extra)
    name = "%s_%s_%d_%d.json" % (prop, "".join(c if c.isalnum() else "-" for c in clause)[:40], os.getpid(), time.time_ns() % 1000000)
    path = os.path.join(REPLAYS, name)
    with open(path, "w") as fh:
        json.dump(doc, fh, indent=1)
    return path


def shrink(prop, sess, idx, clause):
    """Try to reproduce the violation with the failing frame alone (fresh table); fall back
    to the recorded prefix.  Returns (Session-like for the replay, index)."""
    try:
        frame = sess.frames[idx - 2]
        if frame is None or isinstance(frame, tuple):
            return sess, idx
        d = Driver(level=sess.cfg.level)
        s2 = Session(d, sess.cfg, sess.label + " (shrunk)")
        s2.send([frame])
        d.stop()
        res = tv.validate("shrink_%s_%d" % (prop, os.getpid()), [s2.records], focus=prop, jobs=1)
        for (_, ri, p, tag, outcome) in res["verdicts"]:
            if p == prop and tag == clause:
                return s2, ri
    except Exception:
        pass
    return sess, idx


def materialise(prop, runner, res, base=0):
    """Turn the verdicts of one validation run into replay files (shrunk when the failing frame
    alone reproduces the clause) and sample records.  Returns (violations, knowns, samples)."""
    viol = [v for v in res["verdicts"] if v[2] == prop]
    out, seen = [], set(runner.seen_clauses)
    for (si, ri, p, tag, outcome) in viol:
        if (tag, outcome) in seen:
            continue
        seen.add((tag, outcome))
        if len(seen) > 20:
            break
        sess = runner.sessions[base + si]
        s2, r2 = shrink(prop, sess, ri, tag)
        path = write_replay(prop, s2, r2, tag, outcome)
        out.append({"clause": tag, "outcome": outcome, "session": sess.label, "replay": path})
    runner.seen_clauses = seen
    samples = []
    for s in runner.sessions[base:base + 400]:
        for rec in s.records[2:]:
            if rec.get("ev") == "frame" and len(samples) < 6 and (len(samples) == 0 or hash(str(rec["req"][:20])) % 7 == 0):
                samples.append({"session": s.label, "req": hexs(rec["req"]), "out": rec["out"], "rep": hexs(rec["rep"]),
                                "tcb": rec["tcb"], "log": ["%s.%s" % (e["layer"], e["verb"]) for e in rec["log"]]})
    return out, res["knowns"], samples


def merge(a, b):
    if a is None:
        return b
    for k in ("states", "transitions", "events", "chunks", "wall_s"):
        a[k] = a.get(k, 0) + b.get(k, 0)
    for k, v in b["outcomes"].items():
        a["outcomes"][k] = a["outcomes"].get(k, 0) + v
    a["verdicts"] += b["verdicts"]
    a["knowns"] += b["knowns"]
    return a


def finish(prop, tier, seed, runner, res, t0, level, rule, extra_cov=None, gen_stats=None):
    """Print verdict lines, write the evidence file, return the exit code.  `res` is the merged
    result of all validation runs; violations were materialised by Runner.flush()."""
    other = [v for v in res["verdicts"] if v[2] != prop]
    known = tv.known_entries()
    known_by_key = {k["key"]: k for k in known if k["property"] == prop}
    printed = set()
    for (si, ri, key, outcome) in res["knowns"]:
        ent = known_by_key.get(key)
        if ent and key not in printed:
            printed.add(key)
            print("KNOWN-FINDING: property=%s %s" % (prop, ent["what"]))
    rc = 0
    for v in runner.violations:
        print("VIOLATION property=%s replay=%s" % (prop, v["replay"]))
        print("  clause=%s outcome=%s session=%s" % (v["clause"], v["outcome"], v["session"]))
        rc = 1
    samples = runner.samples[:6]
    frames = runner.frames_run
    nontrivial = {k: v for k, v in res["outcomes"].items() if k not in ("reconfigure", "reset")}
    cov = {
        "states": max(1, res["states"] + sum(m.get("states", 0) for m in runner.mc)),
        "transitions": max(1, res["transitions"] + sum(m.get("transitions", 0) for m in runner.mc)),
        "traces_validated_against_impl": len(runner.sessions),
        "samples": samples or [{"note": "no frame executed"}],
        "evaluations": frames,
        "distinct_nontrivial": len(nontrivial),
        "rule": rule + "  distinct_nontrivial = number of distinct outcome actions of the specification "
                       "(layer-2..4 outcome / identified protocol / tri-state class / reason) taken by validated events.",
        "events_validated_by_tlc": res["events"],
        "outcome_actions_covered": nontrivial,
        "tlc_chunks": res["chunks"],
        "model_checking_runs": runner.mc,
        "violations_of_other_properties_seen": sorted(set((v[2], v[3]) for v in other))[:40],
        "known_findings_hit": sorted(printed),
        "checker_cmd": "tlc -workers 1 -config Trace.cfg Trace.tla  (env TRACE=<ndjson> FOCUS=%s)" % prop,
    }
    if extra_cov:
        cov.update(extra_cov)
    if gen_stats:
        cov["generator"] = gen_stats
    ev = {"property_id": prop, "tier": tier, "seed": seed, "level": level, "coverage": cov,
          "assumptions": ["the driver (cargo feature verif) calls the same reply() as main()",
                          "TLC, the CommunityModules JSON reader, the harness frame encoder / log tokeniser / zlib and ipaddress decodes"],
          "wall_s": round(time.time() - t0, 2), "violations": len(runner.violations)}
    os.makedirs(EVID, exist_ok=True)
    with open(os.path.join(EVID, prop + ".json"), "w") as fh:
        json.dump(ev, fh, indent=1)
    return rc


def do_replay(prop, path):
    doc = json.load(open(path))
    cfg = Config.from_desc(doc["config"])
    r = Runner(prop, "quick", 0)
    s = r.session(cfg, "replay " + os.path.basename(path))
    batch = []
    for f in doc["frames"]:
        if f is None:
            if batch:
                s.send(batch)
                batch = []
            s.reset()
        elif isinstance(f, dict):
            if batch:
                s.send(batch)
                batch = []
            s.reconfigure(Config.from_desc(f["cfg"]))
        else:
            batch.append(bytes.fromhex(f))
    if batch:
        s.send(batch)
    r.close()
    res = tv.validate("replay_%s_%d" % (prop, os.getpid()), [s.records], focus=prop, jobs=1)
    bad = [v for v in res["verdicts"] if v[2] == prop]
    for v in bad:
        print("VIOLATION property=%s replay=%s" % (prop, path))
        print("  clause=%s outcome=%s at frame %d" % (v[3], v[4], v[1] - 2))
    for k in res["knowns"]:
        print("KNOWN-FINDING: property=%s key=%s" % (prop, k[2]))
    if not bad:
        print("replay: no violation of %s" % prop)
    return 1 if bad else 0


def main():
    args = sys.argv[1:]
    if len(args) < 2:
        print(__doc__)
        return 2
    prop = args[0]
    if args[1] == "--replay":
        build()
        return do_replay(prop, args[2])
    tier = args[1]
    seed = int(os.environ.get("VERIF_SEED", "1"))
    if "--seed" in args:
        seed = int(args[args.index("--seed") + 1])
    if os.environ.get("VERIF_TIER") in ("quick", "thorough") and tier not in ("quick", "thorough"):
        tier = os.environ["VERIF_TIER"]
    t0 = time.time()
    build()
    import props
    fn = getattr(props, "check_" + prop, None)
    if fn is None:
        print("no check for " + prop)
        return 2
    runner = Runner(prop, tier, seed)
    try:
        return fn(runner, tier, seed, t0)
    finally:
        runner.close()


if __name__ == "__main__":
    try:
        sys.exit(main())
    except tv.ToolError as e:
        print("TOOL-ERROR: %s" % e)
        sys.exit(2)
    except SystemExit:
        raise
    except Exception:
        traceback.print_exc()
        sys.exit(2)
