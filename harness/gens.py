"""Input generators.  They drive sessions on the real responder; nothing here decides
whether a reply is right - every recorded event is judged by TLC against the specification."""
import ipaddress
import struct

from common import *
from driver import Config
from frames import *
from l7 import *


def solicited_node(ip6):
    a = ip(ip6)
    return bytes.fromhex("ff0200000000000000000001ff") + a[13:]


def mcast_mac6(ip6):
    a = ip(ip6)
    return bytes([0x33, 0x33, 0xff]) + a[13:]


def mcast_mac4(ip4):
    a = ip(ip4)
    return bytes([1, 0, 0x5e, a[1] & 0x7f, a[2], a[3]])


def base_requests(dmac, src4, dst4, src6, dst6, cmac=CMAC, sport=40000, dport=3478):
    """One request of every kind the responder may answer, addressed as given."""
    cm = mac(cmac)
    out = []
    out.append(("arp", eth(dmac, cm, 0x0806, arp(1, cm, src4, "00:00:00:00:00:00", dst4))))
    out.append(("echo4", eth(dmac, cm, 0x0800, ipv4(src4, dst4, 1, icmp_echo(7, 9, b"ping-data")))))
    out.append(("echo6", eth(dmac, cm, 0x86DD, ipv6(src6, dst6, 58, icmp6(src6, dst6, 128, 0, struct.pack(">HH", 7, 9) + b"ping6")))))
    sn = solicited_node(dst6)
    out.append(("ns", eth(dmac, cm, 0x86DD, ipv6(src6, sn, 58, nd_ns(src6, sn, dst6, b"\x01\x01" + cm), hlim=255))))
    out.append(("ns-unicast", eth(dmac, cm, 0x86DD, ipv6(src6, dst6, 58, nd_ns(src6, dst6, dst6), hlim=255))))
    out.append(("syn4", eth(dmac, cm, 0x0800, ipv4(src4, dst4, 6, tcp(src4, dst4, sport, 80, 1000, 0, F_SYN)))))
    out.append(("syn6", eth(dmac, cm, 0x86DD, ipv6(src6, dst6, 6, tcp(src6, dst6, sport, 80, 1000, 0, F_SYN)))))
    out.append(("stun4", eth(dmac, cm, 0x0800, ipv4(src4, dst4, 17, udp(src4, dst4, sport, dport, stun(txid=b"\x07" * 16))))))
    out.append(("stun6", eth(dmac, cm, 0x86DD, ipv6(src6, dst6, 17, udp(src6, dst6, sport, dport, stun(txid=b"\x08" * 16))))))
    out.append(("dns4", eth(dmac, cm, 0x0800, ipv4(src4, dst4, 17, udp(src4, dst4, sport, 53, dns_query())))))
    return out


# ------------------------------------------------------------------ C02
def gen_scope(runner, tier, seed):
    r = rng_for(seed, "C02")
    selfs = [None, [S4], [S4, S6]]
    denys = [None, [D4], [D4, D6]]
    twin = "10.139.12.13"                       # same low 23 bits as S4: same RFC 1112 group MAC
    for si, sl in enumerate(selfs):
        for di, dl in enumerate(denys):
            cfg = Config(SMAC, sl, dl, KEYS[1], "none", 0)
            s = runner.session(cfg, "scope self=%s deny=%s" % (sl, dl))
            macs = [mac(SMAC), b"\xff" * 6, bytes.fromhex("333300000001"),
                    mcast_mac4(S4), mcast_mac6(S6), mcast_mac4(O4), mcast_mac6(O6),
                    bytes([1, 0, 0x5e, 0x8b, 12, 13]),            # bit 23 set: not the image of any IPv4 address
                    bytes.fromhex("3333ffaabbcc"),                # solicited-node MAC with another last octet
                    bytes.fromhex("3333ff00bbdd"),
                    bytes.fromhex("020000000001"), b"\0" * 6, bytes.fromhex("001122334456")]
            frames = []
            for m in macs:
                for (src4, src6) in ((C4, C6), (D4, D6)):
                    for (dst4, dst6) in ((S4, S6), (O4, O6)):
                        if tier == "quick" and m not in macs[:3] and (src4 == D4 and dst4 == O4):
                            continue
                        frames += [f for _, f in base_requests(m, src4, dst4, src6, dst6)]
            s.send(frames)
            # next-header / protocol numbers, EtherTypes
            frames = []
            pay = icmp_echo(1, 1, b"x")
            for nh in range(256):
                frames.append(eth(SMAC, CMAC, 0x0800, ipv4(C4, S4, nh, pay)))
                frames.append(eth(SMAC, CMAC, 0x86DD, ipv6(C6, S6, nh, icmp6(C6, S6, 128, 0, b"\0\1\0\1x"))))
            ets = [0x8100, 0x88cc, 0, 0x0805, 0x0807, 0x86dc, 0x86de, 0x0801, 0xffff] + \
                  [r.randrange(0x10000) for _ in range(40 if tier == "quick" else 2000)]
            for et in ets:
                frames.append(eth(SMAC, CMAC, et, ipv4(C4, S4, 1, pay)))
            if si == 0 or tier != "quick":
                s.send(frames)
    # the RFC 1112 mapping keeps only 23 bits: an address whose second octet has bit 7 set
    cfg = Config(SMAC, [twin], None, KEYS[1], "none", 0)
    s = runner.session(cfg, "scope rfc1112 twin")
    fr = []
    for m in (mcast_mac4(twin), bytes([1, 0, 0x5e, 0x8b, 12, 13]), bytes([1, 0, 0x5e, 0x0b, 12, 14])):
        fr += [f for _, f in base_requests(m, C4, twin, C6, S6)]
    s.send(fr)
    # random addresses against a random self list
    n = 4 if tier == "quick" else 40
    for k in range(n):
        sl = [rand_ip4(r), rand_ip6(r)]
        dl = [rand_ip4(r), rand_ip6(r)]
        cfg = Config(SMAC, sl, dl, KEYS[1], "none", 0)
        s = runner.session(cfg, "scope random %d" % k)
        fr = []
        for _ in range(30):
            src4 = r.choice([dl[0], rand_ip4(r)])
            src6 = r.choice([dl[1], rand_ip6(r)])
            dst4 = r.choice([sl[0], rand_ip4(r)])
            dst6 = r.choice([sl[1], rand_ip6(r)])
            m = r.choice([mac(SMAC), b"\xff" * 6, mcast_mac4(dst4), mcast_mac6(dst6), mcast_mac4(sl[0]), mcast_mac6(sl[1])])
            fr += [f for _, f in base_requests(m, src4, dst4, src6, dst6)]
        s.send(fr)


# ------------------------------------------------------------------ C03
def app_requests(r, tcpmode=False):
    """A replying request of every application protocol."""
    out = [http_request(r.choice(HTTP_VERBS), b"/" + bytes(r.randrange(33, 127) for _ in range(r.randrange(0, 8)))),
           ssh_ident(software=b"x" + bytes(r.randrange(33, 127) for _ in range(r.randrange(0, 6)))),
           ghost(bytes(r.randrange(256) for _ in range(r.randrange(0, 8)))),
           smb1_negotiate([b"LANMAN1.0", b"NT LM 0.12"], mid=r.randrange(65536)),
           smb1_session_setup(uid=r.randrange(65536)),
           smb2_negotiate([0x0202, 0x0210, 0x0300], message_id=r.randrange(1 << 60)),
           smb2_session_setup(session_id=r.randrange(1 << 60))]
    if tcpmode:
        out += [rpc_call(xid=0x11000000 | r.randrange(1 << 24), vers=r.choice([2, 3, 4]), proc=r.choice([0, 3, 4]), tcp=True),
                stun(txid=STUN_MAGIC + bytes(r.randrange(256) for _ in range(12)), attrs=stun_attr(0x8022, b"s" * 256))]
    else:
        out += [rpc_call(xid=0x11000000 | r.randrange(1 << 24), vers=r.choice([2, 3, 4]), proc=r.choice([0, 3, 4])),
                stun(txid=bytes(r.randrange(256) for _ in range(16))),
                stun(txid=bytes(r.randrange(256) for _ in range(16)), attrs=stun_change_request(False, True)),
                stun(txid=bytes(r.randrange(256) for _ in range(16)), attrs=stun_change_request(True, False)),
                stun(txid=STUN_MAGIC + bytes(r.randrange(256) for _ in range(12)), attrs=stun_attr(0x8022, b"s" * 256)),
                dns_query(id_=r.randrange(65536), questions=[(b"a" * r.randrange(1, 20), b"example")])]
    return out


def tcp_exchange(s, peer, sport, dport, segments, seq=None, r=None, fin=False):
    """SYN, learn the cookie from the SYN-ACK (as any client does), then the data segments."""
    isn = seq if seq is not None else 0x10000000
    obs = s.send([peer.tcp(sport, dport, isn, 0, F_SYN)])
    if not obs or obs[0]["out"] != "reply":
        return []
    ck = tcp_fields(bytes(obs[0]["rep"]))["seq"]
    cur = (isn + 1) & 0xFFFFFFFF
    frames = []
    for seg in segments:
        frames.append(peer.tcp(sport, dport, cur, (ck + 1) & 0xFFFFFFFF, F_PSH | F_ACK, seg))
        cur = (cur + len(seg)) & 0xFFFFFFFF
    if fin:
        frames.append(peer.tcp(sport, dport, cur, (ck + 1) & 0xFFFFFFFF, F_FIN | F_ACK))
    return s.send(frames)


def tcp_batch(s, flows):
    """flows: list of (peer, sport, dport, isn, [segments]).  Sends all SYNs, then all data."""
    syns = [p.tcp(sp, dp, isn, 0, F_SYN) for (p, sp, dp, isn, segs) in flows]
    obs = s.send(syns)
    data = []
    for (p, sp, dp, isn, segs), o in zip(flows, obs):
        if o["out"] != "reply":
            continue
        ck = tcp_fields(bytes(o["rep"]))["seq"]
        cur = (isn + 1) & 0xFFFFFFFF
        for seg in segs:
            data.append(p.tcp(sp, dp, cur, (ck + 1) & 0xFFFFFFFF, F_PSH | F_ACK, seg))
            cur = (cur + len(seg)) & 0xFFFFFFFF
    return s.send(data)


def gen_mirror(runner, tier, seed):
    r = rng_for(seed, "C03")
    n = 60 if tier == "quick" else 1500
    for cfg in (cfg_plain(), Config(SMAC, None, None, KEYS[2], "none", 0)):
        s = runner.session(cfg, "mirror random tuples key=%x" % cfg.key[0])
        frames, flows = [], []
        for k in range(n):
            cm = bytes([r.randrange(256) & 0xfe] + [r.randrange(256) for _ in range(5)])
            c4, s4, c6, s6 = rand_ip4(r), rand_ip4(r), rand_ip6(r), rand_ip6(r)
            sport = r.choice([0, 1, 65534, 65535, r.randrange(65536)])
            dport = r.choice([0, 1, 65534, 65535, r.randrange(65536)])
            dm = r.choice([mac(SMAC), b"\xff" * 6])
            frames += [f for _, f in base_requests(dm, c4, s4, c6, s6, cmac=cm, sport=sport, dport=dport)]
            p4, p6 = Peer(cm, SMAC, c4, s4), Peer(cm, SMAC, c6, s6)
            for pl in app_requests(r):
                p = r.choice([p4, p6])
                frames.append(p.udp(sport, dport, pl))
            frames.append(p4.tcp(sport, dport, r.randrange(1 << 32), r.randrange(1 << 32), F_FIN | F_ACK))
            frames.append(p6.tcp(sport, dport, r.randrange(1 << 32), r.randrange(1 << 32), F_FIN | F_ACK))
            if k % 3 == 0:
                for pl in app_requests(r, tcpmode=True)[:4 if tier == "quick" else 9]:
                    flows.append((r.choice([p4, p6]), r.randrange(65536), r.choice([0, 65535, r.randrange(65536)]), r.randrange(1 << 32), [pl]))
        s.send(frames)
        tcp_batch(s, flows)
    # STUN change-port on destination ports around the 16-bit wrap, both versions
    s = runner.session(cfg_plain(), "mirror stun change-port wrap")
    fr = []
    for dport in (0, 1, 3478, 65534, 65535):
        for p in (peer4(), peer6()):
            for cp in (True, False):
                fr.append(p.udp(r.randrange(65536), dport, stun(txid=bytes(r.randrange(256) for _ in range(16)), attrs=stun_change_request(r.random() < 0.5, cp))))
    s.send(fr)


# ------------------------------------------------------------------ C04
def gen_wellformed(runner, tier, seed):
    r = rng_for(seed, "C04")
    s = runner.session(cfg_plain(), "wf echo sizes")
    sizes = list(range(0, 66)) + [127, 128, 129, 255, 256, 257, 511, 512, 1023, 1024, 1471, 1472] if tier == "quick" else list(range(0, 1473))
    p4, p6 = peer4(), peer6()
    fr = []
    for n in sizes:
        data = bytes((i * 7 + n) & 255 for i in range(n))
        fr.append(p4.echo(n & 0xffff, 1, data))
        fr.append(p6.echo(n & 0xffff, 1, data))
    s.send(fr)
    # jumbo: the largest IPv4 datagram / IPv6 payload
    big4 = bytes(r.randrange(256) for _ in range(65535 - 20 - 8))
    big6 = bytes(r.randrange(256) for _ in range(65535 - 8))
    s = runner.session(cfg_plain(), "wf jumbo echo")
    s.send([p4.echo(1, 2, big4), p6.echo(1, 2, big6), p4.echo(1, 2, big4[:32000]), p6.echo(1, 2, big6[:32001])])
    # application replies of every protocol on both versions over UDP; DNS names of every length
    s = runner.session(cfg_plain(), "wf app udp")
    fr = []
    for k in range(3 if tier == "quick" else 40):
        for pl in app_requests(r):
            fr.append(p4.udp(r.randrange(65536), r.randrange(65536), pl))
            fr.append(p6.udp(r.randrange(65536), r.randrange(65536), pl))
    for n in (range(1, 64) if tier == "quick" else list(range(1, 64)) * 3):
        fr.append(p4.udp(r.randrange(65536), 53, dns_query(id_=r.randrange(65536), questions=[(b"n" * n,)])))
        fr.append(p4.udp(r.randrange(65536), 53, dns_query(id_=r.randrange(65536), questions=[(b"n" * n, b"q" * (n % 7 + 1)), (b"z",)])))
    s.send(fr)
    s = runner.session(cfg_plain(), "wf app tcp")
    flows = []
    for k in range(2 if tier == "quick" else 30):
        for pl in app_requests(r, tcpmode=True):
            flows.append((r.choice([p4, p6]), 1024 + len(flows), r.randrange(65536), r.randrange(1 << 32), [pl]))
    tcp_batch(s, flows)
    # SYN / FIN replies
    fr = []
    for k in range(50 if tier == "quick" else 2000):
        p = r.choice([p4, p6])
        fr.append(p.tcp(r.randrange(65536), r.randrange(65536), r.randrange(1 << 32), r.randrange(1 << 32), r.choice([F_SYN, F_FIN | F_ACK, F_SYN | F_PSH, F_SYN | F_ECE])))
    s.send(fr)
    # adaptive zero-checksum search: the echoed id word enters the reply checksum linearly
    gen_zero_checksum(runner, tier, r)


def _reply_l4(rep):
    et = struct.unpack(">H", rep[12:14])[0]
    off = 34 if et == 0x0800 else 54
    return off


def gen_zero_checksum(runner, tier, r):
    s = runner.session(cfg_plain(), "wf adaptive zero checksum")
    p4, p6 = peer4(), peer6()
    for rounds in range(2 if tier == "quick" else 12):
        sport, dport = r.randrange(1, 65536), r.randrange(1, 65535)
        for p in (p4, p6):
            # STUN over UDP: last transaction-id word
            tx = bytes(r.randrange(256) for _ in range(14))
            o = s.send([p.udp(sport, dport, stun(txid=tx + b"\0\0"))])
            if o and o[0]["out"] == "reply":
                rep = bytes(o[0]["rep"])
                c = rep[_reply_l4(rep) + 6:_reply_l4(rep) + 8]
                s.send([p.udp(sport, dport, stun(txid=tx + c))])
            # DNS over UDP/IPv4: the id
            if not p.v6:
                o = s.send([p.udp(sport, 53, dns_query(id_=0, questions=[(b"zero", b"sum")]))])
                if o and o[0]["out"] == "reply":
                    rep = bytes(o[0]["rep"])
                    c = struct.unpack(">H", rep[_reply_l4(rep) + 6:_reply_l4(rep) + 8])[0]
                    s.send([p.udp(sport, 53, dns_query(id_=c, questions=[(b"zero", b"sum")]))])
            # ICMP echo: the identifier
            o = s.send([p.echo(0, 5, b"zero-sum")])
            if o and o[0]["out"] == "reply":
                rep = bytes(o[0]["rep"])
                off = _reply_l4(rep)
                c = struct.unpack(">H", rep[off + 2:off + 4])[0]
                s.send([p.echo(c, 5, b"zero-sum")])
            # TCP: sequence number low word of a FIN|ACK is echoed as the reply's ack (+1): use the ack field instead
            o = s.send([p.tcp(sport, dport, 100, 0, F_FIN | F_ACK)])
            if o and o[0]["out"] == "reply":
                rep = bytes(o[0]["rep"])
                off = _reply_l4(rep)
                c = struct.unpack(">H", rep[off + 16:off + 18])[0]
                s.send([p.tcp(sport, dport, 100, c, F_FIN | F_ACK)])


# ------------------------------------------------------------------ C05
def gen_arp_nd_echo(runner, tier, seed):
    r = rng_for(seed, "C05")
    for cfg in (cfg_plain(), cfg_self()):
        s = runner.session(cfg, "arp/nd/echo self=%s" % (cfg.self_ips,))
        cm = mac(CMAC)
        fr = []
        ops = list(range(0, 17)) + [r.randrange(65536) for _ in range(20)] if tier == "quick" else list(range(65536))
        for op in ops:
            for tpa in (S4, O4):
                fr.append(eth(b"\xff" * 6, cm, 0x0806, arp(op, cm, C4, "00:00:00:00:00:00", tpa)))
        # odd hardware / protocol types and lengths, trailers (Ethernet padding), random addresses
        for (ht, pt, hl, pl) in ((1, 0x0800, 6, 4), (6, 0x0800, 6, 4), (1, 0x86dd, 6, 4), (1, 0x0800, 8, 4), (1, 0x0800, 6, 16), (0, 0, 0, 0)):
            fr.append(eth(SMAC, cm, 0x0806, arp(1, cm, C4, "00:00:00:00:00:00", S4, ht, pt, hl, pl)))
        for k in range(30 if tier == "quick" else 500):
            sha = bytes(r.randrange(256) for _ in range(6))
            fr.append(eth(r.choice([mac(SMAC), b"\xff" * 6]), sha, 0x0806,
                          arp(1, sha, rand_ip4(r), bytes(r.randrange(256) for _ in range(6)), r.choice([S4, rand_ip4(r)]),
                              trailer=bytes(r.randrange(256) for _ in range(r.choice([0, 0, 18, 3]))))))
        s.send(fr)
        # ICMP type / code sweeps
        p4, p6 = peer4(), peer6()
        fr = []
        if tier == "quick":
            pairs = [(t, c) for t in range(256) for c in (0, 1, 255)] + [(t, c) for t in (8, 0, 128, 129, 135, 136) for c in range(256)]
        else:
            pairs = [(t, c) for t in range(256) for c in range(256)]
        for (t, c) in pairs:
            fr.append(p4.l3(1, icmp(t, c, struct.pack(">HH", t, c) + b"data")))
            rest = struct.pack(">HH", t, c) + b"data" if t != 135 else b"\0\0\0\0" + ip(S6)
            fr.append(p6.l3(58, icmp6(p6.cip, p6.sip, t, c, rest)))
        s.send(fr)
        # echo data lengths, identifiers, sequence numbers
        fr = []
        lens = list(range(0, 40)) + [63, 64, 65, 255, 256, 1000, 1471, 1472] if tier == "quick" else list(range(0, 1473))
        for n in lens:
            d = bytes(r.randrange(256) for _ in range(n))
            fr.append(p4.echo(r.randrange(65536), r.randrange(65536), d))
            fr.append(p6.echo(r.randrange(65536), r.randrange(65536), d))
        # truncated echo (ICMP header only / shorter)
        for n in range(0, 8):
            fr.append(p4.l3(1, icmp_echo(1, 2, b"")[:n]))
            fr.append(p6.l3(58, icmp6(p6.cip, p6.sip, 128, 0, b"\0\1\0\2")[:n]))
        s.send(fr)
        # neighbour solicitations
        fr = []
        for tgt in (S6, O6, C6, "fe80::1"):
            for nopt in range(0, 4):
                opts = b"".join(bytes([r.choice([1, 1, 14, 5]), 1]) + bytes(r.randrange(256) for _ in range(6)) for _ in range(nopt))
                for code in (0, 1):
                    sn = solicited_node(tgt)
                    fr.append(eth(mcast_mac6(tgt) if r.random() < 0.5 else mac(SMAC), cm, 0x86DD,
                                  ipv6(C6, sn, 58, nd_ns(C6, sn, tgt, opts, code), hlim=255)))
                    fr.append(eth(SMAC, cm, 0x86DD, ipv6(C6, tgt, 58, nd_ns(C6, tgt, tgt, opts, code), hlim=255)))
        # truncated solicitations: every length from the ICMPv6 header up to a full NS
        full = nd_ns(C6, S6, S6, b"\x01\x01" + cm)
        for n in range(0, len(full) + 1):
            fr.append(eth(SMAC, cm, 0x86DD, ipv6(C6, S6, 58, full[:n], hlim=255)))
        # NS carrying options with large length octets
        for l in (0, 2, 31, 32, 255):
            fr.append(eth(SMAC, cm, 0x86DD, ipv6(C6, S6, 58, nd_ns(C6, S6, S6, bytes([1, l]) + b"\0" * 6), hlim=255)))
        s.send(fr)


# ------------------------------------------------------------------ C06
def gen_syn(runner, tier, seed):
    r = rng_for(seed, "C06")
    seqs = [0, 0xffffffff] if tier == "quick" else [0, 1, 0x7fffffff, 0x80000000, 0xfffffffe, 0xffffffff]
    p4, p6 = peer4(), peer6()
    for hist in ("fresh", "validated", "others"):
        if tier == "quick" and hist == "others":
            continue
        s = runner.session(cfg_plain(), "syn flags history=%s" % hist)
        if hist in ("validated", "others"):
            flows = [(p, 5000 if hist == "validated" else 6000, 80, 77, [http_request()[:9]]) for p in (p4, p6)]
            flows += [(p4, 6001, 111, 5, [rpc_call(tcp=True)[:20]])]
            tcp_batch(s, flows)
        fr = []
        for fl in range(512):
            for pay in (b"", b"abc"):
                for sq in seqs:
                    for p in (p4, p6):
                        fr.append(p.tcp(5000, 80, sq, r.randrange(1 << 32) if fl & F_ACK else 0, fl, pay))
        s.send(fr)
    # any port
    s = runner.session(cfg_plain(), "syn ports")
    fr = []
    for dport in [0, 22, 80, 65535] + [r.randrange(65536) for _ in range(40)]:
        for p in (p4, p6):
            fr.append(p.tcp(r.randrange(65536), dport, r.randrange(1 << 32), 0, r.choice([F_SYN, F_SYN | F_PSH, F_SYN | F_URG, F_SYN | F_CWR, F_SYN | F_ECE])))
    s.send(fr)
    # cookie: retransmission and single-input sensitivity, under several keys
    n = 40 if tier == "quick" else 2000
    base = []
    for k in range(n):
        v6 = r.random() < 0.5
        base.append((v6, rand_ip6(r) if v6 else rand_ip4(r), rand_ip6(r) if v6 else rand_ip4(r), r.randrange(65536), r.randrange(65536)))
    for key in KEYS[:3]:
        s = runner.session(Config(SMAC, None, None, key, "none", 0), "cookie key=%x" % key[0])
        fr = []
        for (v6, a, b, sp, dp) in base:
            alt_a = rand_ip6(r) if v6 else rand_ip4(r)
            alt_b = rand_ip6(r) if v6 else rand_ip4(r)
            variants = [(a, b, sp, dp), (a, b, sp, dp), (alt_a, b, sp, dp), (a, alt_b, sp, dp),
                        (a, b, sp ^ (1 << r.randrange(16)), dp), (a, b, sp, dp ^ (1 << r.randrange(16))), (b, a, dp, sp)]
            for (x, y, p, q) in variants:
                fr.append(Peer(CMAC, SMAC, x, y).tcp(p, q, r.randrange(1 << 32), 0, F_SYN))
        s.send(fr)


# ------------------------------------------------------------------ C20
def gen_log(runner, tier, seed):
    r = rng_for(seed, "C20")
    for fmt in ("console", "logfmt"):
        for cfg in (Config(SMAC, None, None, KEYS[1], fmt, 0), Config(SMAC, [S4, S6], [D4, D6], KEYS[1], fmt, 0)):
            s = runner.session(cfg, "log %s self=%s" % (fmt, bool(cfg.self_ips)))
            fr = []
            cm = mac(CMAC)
            for m in (mac(SMAC), b"\xff" * 6, bytes.fromhex("020000000001")):
                for (src4, src6) in ((C4, C6), (D4, D6)):
                    for (dst4, dst6) in ((S4, S6), (O4, O6)):
                        fr += [f for _, f in base_requests(m, src4, dst4, src6, dst6)]
            p4, p6 = peer4(), peer6()
            # drops at every layer
            fr += [b"", b"\0" * 13, eth(SMAC, cm, 0x0806, b"\0" * 27), eth(SMAC, cm, 0x0800, b"\x45" + b"\0" * 18),
                   eth(SMAC, cm, 0x86DD, b"\x60" + b"\0" * 38), eth(SMAC, cm, 0x1234, b"hello")]
            for p in (p4, p6):
                fr += [p.l3(1 if not p.v6 else 58, b"\x08\0\0"), p.l3(6, b"\0" * 19), p.l3(17, b"\0" * 7), p.l3(47, b"gre"),
                       p.echo(1, 1, b"x", code=3), p.echo(1, 1, b"x", type_=0 if not p.v6 else 129),
                       p.tcp(1, 2, 3, 4, F_ACK), p.tcp(1, 2, 3, 4, F_RST), p.tcp(1, 2, 3, 4, F_FIN | F_ACK), p.tcp(1, 2, 3, 4, F_SYN | F_ACK),
                       p.tcp(1, 2, 3, 4, F_SYN | F_FIN), p.tcp(1, 2, 3, 4, F_URG), p.tcp(1, 2, 3, 4, F_PSH | F_ACK, b"GET / HTTP/1.0\r\n\r\n"),
                       p.udp(1, 2, b"nothing"), p.udp(1, 2, b""), p.udp(9, 65535, stun(attrs=stun_change_request(False, True), txid=b"\4" * 16))]
                for pl in app_requests(r):
                    fr.append(p.udp(r.randrange(65536), r.randrange(65536), pl))
            fr.append(eth(SMAC, cm, 0x0806, arp(2, cm, C4, SMAC, S4)))
            fr.append(eth(SMAC, cm, 0x86DD, ipv6(C6, S6, 58, nd_ns(C6, S6, S6)[:20], hlim=255)))
            s.send(fr)
            flows = [(p, 7000 + i, 80, 1, [pl]) for i, pl in enumerate(app_requests(r, tcpmode=True)) for p in (p4, p6)]
            tcp_batch(s, flows)
            if tier != "quick":
                fr = []
                for k in range(400):
                    b = bytearray(r.choice(s.frames[:200]) or b"")
                    if b:
                        b[r.randrange(len(b))] ^= 1 << r.randrange(8)
                    fr.append(bytes(b))
                s.send(fr)
