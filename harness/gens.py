"""Input generators.  They drive sessions on the real responder; nothing here decides
whether a reply is right - every recorded event is judged by TLC against the specification."""
import ipaddress
import struct

from common import *
from driver import Config
from frames import *
from l7 import *


def solicited_node(ip6):
    a = ip(ip6)
    return bytes.fromhex("ff0200000000000000000001ff") + a[13:]


def mcast_mac6(ip6):
    a = ip(ip6)
    return bytes([0x33, 0x33, 0xff]) + a[13:]


def mcast_mac4(ip4):
    a = ip(ip4)
    return bytes([1, 0, 0x5e, a[1] & 0x7f, a[2], a[3]])


def base_requests(dmac, src4, dst4, src6, dst6, cmac=CMAC, sport=40000, dport=3478):
    """One request of every kind the responder may answer, addressed as given."""
    cm = mac(cmac)
    out = []
    out.append(("arp", eth(dmac, cm, 0x0806, arp(1, cm, src4, "00:00:00:00:00:00", dst4))))
    out.append(("echo4", eth(dmac, cm, 0x0800, ipv4(src4, dst4, 1, icmp_echo(7, 9, b"ping-data")))))
    out.append(("echo6", eth(dmac, cm, 0x86DD, ipv6(src6, dst6, 58, icmp6(src6, dst6, 128, 0, struct.pack(">HH", 7, 9) + b"ping6")))))
    sn = solicited_node(dst6)
    out.append(("ns", eth(dmac, cm, 0x86DD, ipv6(src6, sn, 58, nd_ns(src6, sn, dst6, b"\x01\x01" + cm), hlim=255))))
    out.append(("ns-unicast", eth(dmac, cm, 0x86DD, ipv6(src6, dst6, 58, nd_ns(src6, dst6, dst6), hlim=255))))
    out.append(("syn4", eth(dmac, cm, 0x0800, ipv4(src4, dst4, 6, tcp(src4, dst4, sport, 80, 1000, 0, F_SYN)))))
    out.append(("syn6", eth(dmac, cm, 0x86DD, ipv6(src6, dst6, 6, tcp(src6, dst6, sport, 80, 1000, 0, F_SYN)))))
    out.append(("stun4", eth(dmac, cm, 0x0800, ipv4(src4, dst4, 17, udp(src4, dst4, sport, dport, stun(txid=b"\x07" * 16))))))
    out.append(("stun6", eth(dmac, cm, 0x86DD, ipv6(src6, dst6, 17, udp(src6, dst6, sport, dport, stun(txid=b"\x08" * 16))))))
    out.append(("dns4", eth(dmac, cm, 0x0800, ipv4(src4, dst4, 17, udp(src4, dst4, sport, 53, dns_query())))))
    return out


# ------------------------------------------------------------------ C02
def gen_scope(runner, tier, seed):
    r = rng_for(seed, "C02")
    selfs = [None, [S4], [S4, S6]]
    denys = [None, [D4], [D4, D6]]
    twin = "10.139.12.13"                       # same low 23 bits as S4: same RFC 1112 group MAC
    for si, sl in enumerate(selfs):
        for di, dl in enumerate(denys):
            cfg = Config(SMAC, sl, dl, KEYS[1], "none", 0)
            s = runner.session(cfg, "scope self=%s deny=%s" % (sl, dl))
            macs = [mac(SMAC), b"\xff" * 6, bytes.fromhex("333300000001"),
                    mcast_mac4(S4), mcast_mac6(S6), mcast_mac4(O4), mcast_mac6(O6),
                    bytes([1, 0, 0x5e, 0x8b, 12, 13]),            # bit 23 set: not the image of any IPv4 address
                    bytes.fromhex("3333ffaabbcc"),                # solicited-node MAC with another last octet
                    bytes.fromhex("3333ff00bbdd"),
                    bytes.fromhex("020000000001"), b"\0" * 6, bytes.fromhex("001122334456")]
            frames = []
            for m in macs:
                for (src4, src6) in ((C4, C6), (D4, D6)):
                    for (dst4, dst6) in ((S4, S6), (O4, O6)):
                        if tier == "quick" and m not in macs[:3] and (src4 == D4 and dst4 == O4):
                            continue
                        frames += [f for _, f in base_requests(m, src4, dst4, src6, dst6)]
            s.send(frames)
            # next-header / protocol numbers, EtherTypes
            frames = []
            pay = icmp_echo(1, 1, b"x")
            for nh in range(256):
                frames.append(eth(SMAC, CMAC, 0x0800, ipv4(C4, S4, nh, pay)))
                frames.append(eth(SMAC, CMAC, 0x86DD, ipv6(C6, S6, nh, icmp6(C6, S6, 128, 0, b"\0\1\0\1x"))))
            ets = [0x8100, 0x88cc, 0, 0x0805, 0x0807, 0x86dc, 0x86de, 0x0801, 0xffff] + \
                  [r.randrange(0x10000) for _ in range(40 if tier == "quick" else 2000)]
            for et in ets:
                frames.append(eth(SMAC, CMAC, et, ipv4(C4, S4, 1, pay)))
            # the neighbour-solicitation exemption of the destination filter is for ICMPv6 type 135 only:
            # other transports whose first payload byte is 135 (source port 0x87xx), other ICMPv6 types
            for dst6 in (O6, S6):
                for sp in (0x8700, 0x87ff, 0x86ff, 0x8800):
                    frames.append(eth(SMAC, CMAC, 0x86DD, ipv6(C6, dst6, 6, tcp(C6, dst6, sp, 80, 1, 0, F_SYN))))
                    frames.append(eth(SMAC, CMAC, 0x86DD, ipv6(C6, dst6, 17, udp(C6, dst6, sp, 3478, stun(1, b"\x21" * 16)))))
                for t in (128, 133, 134, 136, 137):
                    frames.append(eth(SMAC, CMAC, 0x86DD, ipv6(C6, dst6, 58, icmp6(C6, dst6, t, 0, b"\0\1\0\1" + ip(S6)))))
                frames.append(eth(SMAC, CMAC, 0x86DD, ipv6(C6, dst6, 59, bytes([135, 0, 0, 0]) + b"\0" * 20)))
            for dst4 in (O4, S4):
                frames.append(eth(SMAC, CMAC, 0x0800, ipv4(C4, dst4, 6, tcp(C4, dst4, 0x8700, 80, 1, 0, F_SYN))))
            # neighbour solicitations whose IPv6 destination and target disagree about the self-IP list
            for (d6, t6) in ((O6, S6), (S6, O6), ("2001:db8::42", S6), ("fe80::99", S6), ("ff02::1", S6), (solicited_node(O6), S6), (solicited_node(S6), O6)):
                for m in (mac(SMAC), mcast_mac6(S6)):
                    frames.append(eth(m, CMAC, 0x86DD, ipv6(C6, d6, 58, nd_ns(C6, d6, t6, b"\x01\x01" + mac(CMAC)), hlim=255)))
            if si == 0 or tier != "quick":
                s.send(frames)
            else:
                s.send(frames[-40:])
    # the RFC 1112 mapping keeps only 23 bits: an address whose second octet has bit 7 set
    cfg = Config(SMAC, [twin], None, KEYS[1], "none", 0)
    s = runner.session(cfg, "scope rfc1112 twin")
    fr = []
    for m in (mcast_mac4(twin), bytes([1, 0, 0x5e, 0x8b, 12, 13]), bytes([1, 0, 0x5e, 0x0b, 12, 14])):
        fr += [f for _, f in base_requests(m, C4, twin, C6, S6)]
    s.send(fr)
    # every one of the 23 mapped bits counts: the derived MAC with one bit flipped is not ours (nor is bit 23 mapped)
    for own in ("10.127.255.255", "10.128.0.0", "10.77.2.3", rand_ip4(r)):
        cfg = Config(SMAC, [own], None, KEYS[1], "none", 0)
        s = runner.session(cfg, "scope rfc1112 bit by bit %s" % own)
        good = mcast_mac4(own)
        v4 = ("arp", "echo4", "syn4", "stun4")
        fr = [f for n_, f in base_requests(good, C4, own, C6, S6) if n_ in v4]
        for bit in range(24):
            v = int.from_bytes(good[3:], "big") ^ (1 << bit)
            m = good[:3] + v.to_bytes(3, "big")
            fr += [f for n_, f in base_requests(m, C4, own, C6, S6) if n_ in v4]
        s.send(fr)
    # multicast MACs are derived per family: the IPv4 group prefix with the low bits of a handled IPv6
    # address (or the reverse) is not ours; several handled addresses may share one group MAC
    a4, b4 = "170.153.136.119", "10.25.136.119"              # same low 23 bits
    a6, b6, c6 = "2001:db8:1::aabb:ccdd", "2001:db8:2::11bb:ccdd", "2001:db8:3::1"   # a6, b6: same low 24 bits
    for sl in ([a4, a6], [a4, b4, a6, b6, c6], [a6, b6], [b6, a6, c6]):
        cfg = Config(SMAC, sl, [D4, D6], KEYS[1], "none", 0)
        s = runner.session(cfg, "scope several self addresses %s" % (sl,))
        fr = []
        l4s = [ip(x)[1:] for x in (a4, b4)]
        l6s = [ip(x)[13:] for x in (a6, b6, c6)]
        ms = [mcast_mac4(a4), mcast_mac6(a6), mcast_mac6(c6)]
        ms += [bytes([1, 0, 0x5e]) + bytes([x[0] & 0x7f, x[1], x[2]]) for x in l6s]          # IPv4 prefix, IPv6 low bits
        ms += [bytes([0x33, 0x33, 0xff]) + bytes([x[0] & 0x7f, x[1], x[2]]) for x in l4s]    # IPv6 prefix, IPv4 low bits
        ms += [bytes([0x33, 0x33, 0xff]) + bytes(x) for x in l4s]
        for m in ms:
            for d4 in (a4, b4):
                for d6 in (a6, b6, c6):
                    fr += [f for _, f in base_requests(m, C4, d4, C6, d6)]
        for t6 in (a6, b6, c6, O6):
            for m in (mac(SMAC), mcast_mac6(t6)):
                fr.append(eth(m, CMAC, 0x86DD, ipv6(C6, solicited_node(t6), 58, nd_ns(C6, solicited_node(t6), t6, b"\x01\x01" + mac(CMAC)), hlim=255)))
                fr.append(eth(m, CMAC, 0x86DD, ipv6(C6, t6, 58, nd_ns(C6, t6, t6), hlim=255)))
        for t4 in (a4, b4, O4):
            fr.append(eth(b"\xff" * 6, CMAC, 0x0806, arp(1, CMAC, C4, "00:00:00:00:00:00", t4)))
        s.send(fr)
    # random addresses against a random self list
    n = 4 if tier == "quick" else 40
    for k in range(n):
        sl = [rand_ip4(r), rand_ip6(r)]
        dl = [rand_ip4(r), rand_ip6(r)]
        cfg = Config(SMAC, sl, dl, KEYS[1], "none", 0)
        s = runner.session(cfg, "scope random %d" % k)
        fr = []
        for _ in range(30):
            src4 = r.choice([dl[0], rand_ip4(r)])
            src6 = r.choice([dl[1], rand_ip6(r)])
            dst4 = r.choice([sl[0], rand_ip4(r)])
            dst6 = r.choice([sl[1], rand_ip6(r)])
            m = r.choice([mac(SMAC), b"\xff" * 6, mcast_mac4(dst4), mcast_mac6(dst6), mcast_mac4(sl[0]), mcast_mac6(sl[1])])
            fr += [f for _, f in base_requests(m, src4, dst4, src6, dst6)]
        s.send(fr)


# ------------------------------------------------------------------ C03
def app_requests(r, tcpmode=False):
    """A replying request of every application protocol."""
    out = [http_request(r.choice(HTTP_VERBS), b"/" + bytes(r.randrange(33, 127) for _ in range(r.randrange(0, 8)))),
           ssh_ident(software=b"x" + bytes(r.randrange(33, 127) for _ in range(r.randrange(0, 6)))),
           ghost(bytes(r.randrange(256) for _ in range(r.randrange(0, 8)))),
           smb1_negotiate([b"LANMAN1.0", b"NT LM 0.12"], mid=r.randrange(65536)),
           smb1_session_setup(uid=r.randrange(65536)),
           smb2_negotiate([0x0202, 0x0210, 0x0300], message_id=r.randrange(1 << 60)),
           smb2_session_setup(session_id=r.randrange(1 << 60))]
    if tcpmode:
        out += [rpc_call(xid=0x11000000 | r.randrange(1 << 24), vers=r.choice([2, 3, 4]), proc=r.choice([0, 3, 4]), tcp=True),
                stun(txid=STUN_MAGIC + bytes(r.randrange(256) for _ in range(12)), attrs=stun_attr(0x8022, b"s" * 256))]
    else:
        out += [rpc_call(xid=0x11000000 | r.randrange(1 << 24), vers=r.choice([2, 3, 4]), proc=r.choice([0, 3, 4])),
                stun(txid=bytes(r.randrange(256) for _ in range(16))),
                stun(txid=bytes(r.randrange(256) for _ in range(16)), attrs=stun_change_request(False, True)),
                stun(txid=bytes(r.randrange(256) for _ in range(16)), attrs=stun_change_request(True, False)),
                stun(txid=STUN_MAGIC + bytes(r.randrange(256) for _ in range(12)), attrs=stun_attr(0x8022, b"s" * 256)),
                dns_query(id_=r.randrange(65536), questions=[(b"a" * r.randrange(1, 20), b"example")])]
    return out


def tcp_exchange(s, peer, sport, dport, segments, seq=None, r=None, fin=False):
    """SYN, learn the cookie from the SYN-ACK (as any client does), then the data segments."""
    isn = seq if seq is not None else 0x10000000
    obs = s.send([peer.tcp(sport, dport, isn, 0, F_SYN)])
    if not obs or obs[0]["out"] != "reply":
        return []
    ck = tcp_fields(bytes(obs[0]["rep"]))["seq"]
    cur = (isn + 1) & 0xFFFFFFFF
    frames = []
    for seg in segments:
        frames.append(peer.tcp(sport, dport, cur, (ck + 1) & 0xFFFFFFFF, F_PSH | F_ACK, seg))
        cur = (cur + len(seg)) & 0xFFFFFFFF
    if fin:
        frames.append(peer.tcp(sport, dport, cur, (ck + 1) & 0xFFFFFFFF, F_FIN | F_ACK))
    return s.send(frames)


TS_OPT = b"\x01\x01\x08\x0a" + b"\x00\x01\xe2\x40" + b"\x00\x00\x00\x00"          # NOP NOP timestamp (12 bytes)
MSS_OPT = b"\x02\x04\x05\xb4"


def tcp_opts(k):
    """TCP options for the k-th segment of a batch: most segments have none (as after a
    SYN-ACK that negotiated none), some carry a timestamp, a few the maximum of 40 bytes."""
    if k % 5 == 3:
        return {"doff": 8, "options": TS_OPT}
    if k % 13 == 7:
        return {"doff": 15, "options": b"\x01" * 40}
    if k % 17 == 11:
        return {"doff": 6, "options": b"\x01\x01\x01\x00"}
    return {}


def l3_variant(f, k):
    """The same datagram in another wrapping, for the k-th frame of a batch: Ethernet padding after the
    IP datagram, IPv4 options (IHL 6 / 15), or both.  Most frames are left alone."""
    if k % 11 not in (4, 8, 9) or len(f) < 34:
        return f
    v4 = f[12:14] == b"\x08\x00"
    pad = b"\0" * (4 if k % 11 == 4 else 6) if k % 11 in (4, 9) else b""
    if v4 and k % 11 in (8, 9) and (f[14] & 15) == 5:
        opts = b"\x01\x01\x01\x00" if k % 2 else b"\x07\x27\x04" + b"\0" * 37          # NOPs+EOL, or record route (40 bytes)
        hdr = bytearray(f[14:34])
        hdr[0] = 0x40 | (5 + len(opts) // 4)
        tl = struct.unpack(">H", hdr[2:4])[0] + len(opts)
        hdr[2:4] = struct.pack(">H", tl)
        hdr[10:12] = b"\0\0"
        full = bytes(hdr) + opts
        c = csum(full)
        full = full[:10] + struct.pack(">H", c) + full[12:]
        f = f[:14] + full + f[34:]
    return f + pad


def tcp_batch(s, flows):
    """flows: list of (peer, sport, dport, isn, [segments]).  Sends all SYNs, then all data."""
    syns = [p.tcp(sp, dp, isn, 0, F_SYN, **({"doff": 6, "options": MSS_OPT} if i % 7 == 2 else {}))
            for i, (p, sp, dp, isn, segs) in enumerate(flows)]
    obs = s.send(syns)
    data = []
    for (p, sp, dp, isn, segs), o in zip(flows, obs):
        if o["out"] != "reply":
            continue
        ck = tcp_fields(bytes(o["rep"]))["seq"]
        cur = (isn + 1) & 0xFFFFFFFF
        for seg in segs:
            f = p.tcp(sp, dp, cur, (ck + 1) & 0xFFFFFFFF, F_PSH | F_ACK, seg, **tcp_opts(len(data)))
            data.append(l3_variant(f, len(data)))
            cur = (cur + len(seg)) & 0xFFFFFFFF
    return s.send(data)


def gen_mirror(runner, tier, seed):
    r = rng_for(seed, "C03")
    n = 100 if tier == "quick" else 1500
    for cfg in (cfg_plain(), Config(SMAC, None, None, KEYS[2], "none", 0)):
        s = runner.session(cfg, "mirror random tuples key=%x" % cfg.key[0])
        frames, flows = [], []
        for k in range(n):
            cm = bytes([r.randrange(256) & 0xfe] + [r.randrange(256) for _ in range(5)])
            if k < 4:                   # the configured MAC itself, broadcast, zero, a group address as the asker
                cm = (mac(SMAC), b"\xff" * 6, b"\0" * 6, bytes.fromhex("01005e010203"))[k]
            c4, s4, c6, s6 = rand_ip4(r), rand_ip4(r), rand_ip6(r), rand_ip6(r)
            sport = r.choice([0, 1, 65534, 65535, r.randrange(65536)])
            dport = r.choice([0, 1, 65534, 65535, r.randrange(65536)])
            dm = r.choice([mac(SMAC), b"\xff" * 6])
            frames += [f for _, f in base_requests(dm, c4, s4, c6, s6, cmac=cm, sport=sport, dport=dport)]
            p4, p6 = Peer(cm, SMAC, c4, s4), Peer(cm, SMAC, c6, s6)
            for pl in app_requests(r):
                p = r.choice([p4, p6])
                frames.append(p.udp(sport, dport, pl))
            frames.append(eth(dm, cm, 0x0806, arp(1, rb(r, 6), c4, b"\0" * 6, s4)))      # ARP sender hardware address differs from the frame's source
            other6 = rand_ip6(r)          # neighbour solicitation sent to a unicast address that is not the target
            frames.append(eth(SMAC, cm, 0x86DD, ipv6(c6, other6, 58, nd_ns(c6, other6, s6, b"\x01\x01" + cm), hlim=255)))
            frames.append(p4.tcp(sport, dport, r.randrange(1 << 32), r.randrange(1 << 32), F_FIN | F_ACK))
            frames.append(p6.tcp(sport, dport, r.randrange(1 << 32), r.randrange(1 << 32), F_FIN | F_ACK))
            if k % 3 == 0:
                for pl in app_requests(r, tcpmode=True)[:4 if tier == "quick" else 9]:
                    flows.append((r.choice([p4, p6]), r.randrange(65536), r.choice([0, 65535, r.randrange(65536)]), r.randrange(1 << 32), [pl]))
            if k % 100 == 99:                     # long runs are cut at table resets (validated in parallel)
                s.send(frames)
                tcp_batch(s, flows)
                s.reset()
                frames, flows = [], []
        s.send(frames)
        tcp_batch(s, flows)
    # STUN change-port on destination ports around the 16-bit wrap, both versions
    s = runner.session(cfg_plain(), "mirror stun change-port wrap")
    fr = []
    for dport in (0, 1, 3478, 65534, 65535):
        for p in (peer4(), peer6()):
            for cp in (True, False):
                fr.append(p.udp(r.randrange(65536), dport, stun(txid=bytes(r.randrange(256) for _ in range(16)), attrs=stun_change_request(r.random() < 0.5, cp))))
    # several CHANGE-REQUEST attributes in one request: still "the next port", never further
    for dport in (3478, 65534, 65535):
        for p in (peer4(), peer6()):
            for flags in ((True, True), (True, True, True), (False, False), (True, False), (False, True)):
                crs = b"".join(stun_change_request(r.random() < 0.5, cp) for cp in flags)
                fr.append(p.udp(r.randrange(65536), dport, stun(txid=rb(r, 16), attrs=crs)))
                fr.append(p.udp(r.randrange(65536), dport, stun(txid=STUN_MAGIC + rb(r, 12), attrs=stun_attr(0x8022, rb(r, 252)) + crs)))
    s.send(fr)
    flows = []
    for dport in (0, 3478, 65535):
        for p in (peer4(), peer6()):
            for cp in (True, False):
                q = stun(txid=STUN_MAGIC + rb(r, 12), attrs=stun_attr(0x8022, rb(r, 252)) + stun_change_request(False, cp))
                flows.append((p, 30000 + len(flows), dport, r.randrange(1 << 32), [q]))
    tcp_batch(s, flows)


# ------------------------------------------------------------------ C04
def gen_wellformed(runner, tier, seed):
    r = rng_for(seed, "C04")
    s = runner.session(cfg_plain(), "wf echo sizes")
    sizes = list(range(0, 66)) + [127, 128, 129, 255, 256, 257, 511, 512, 1023, 1024, 1471, 1472] if tier == "quick" else list(range(0, 1473))
    p4, p6 = peer4(), peer6()
    fr = []
    for n in sizes:
        data = bytes((i * 7 + n) & 255 for i in range(n))
        fr.append(p4.echo(n & 0xffff, 1, data))
        fr.append(p6.echo(n & 0xffff, 1, data))
    s.send(fr)
    s = runner.session(cfg_plain(), "wf answers near and beyond the 16-bit length fields")
    s.send(giants())
    # checksums whose 32-bit sum carries twice when folded: long runs of 0xff make that likely
    s = runner.session(cfg_plain(), "wf checksum folding with large sums")
    fr = []
    for seq in range(64 if tier == "quick" else 256):
        fr.append(p6.echo(0xffff, seq * 1021 & 0xffff, b"\xff" * 8000))
        fr.append(p4.echo(0xffff, seq * 1021 & 0xffff, b"\xff" * 8000))
    for k in range(32 if tier == "quick" else 256):
        fr.append(p6.udp(k * 2039 & 0xffff, 80, http_request("GET", b"/" + b"\xff" * 900)))
    s.send(fr)
    # requests whose own checksums are wrong (the responder does not validate them; what it emits must still be right)
    s = runner.session(cfg_plain(), "wf requests with wrong checksums")
    fr = []
    for n in (0, 1, 7, 8, 33):
        d = bytes(range(n))
        for bad in (0x0000, 0xffff, 0xbeef, 0x0001):
            m = icmp_echo(n, 1, d)
            fr.append(p4.l3(1, m[:2] + struct.pack(">H", bad) + m[4:]))
            m6 = icmp6(p6.cip, p6.sip, 128, 0, struct.pack(">HH", n, 1) + d)
            fr.append(p6.l3(58, m6[:2] + struct.pack(">H", bad) + m6[4:]))
            t = tcp(p4.cip, p4.sip, 1000 + n, 80, 5, 0, F_SYN)
            fr.append(p4.l3(6, t[:16] + struct.pack(">H", bad) + t[18:]))
            u = udp(p6.cip, p6.sip, 1000 + n, 3478, stun(1, bytes([n]) * 16))
            fr.append(p6.l3(17, u[:6] + struct.pack(">H", bad) + u[8:]))
            fr.append(eth(SMAC, CMAC, 0x0800, ipv4(C4, S4, 1, icmp_echo(n, 2, d), bad_csum=True)))
    s.send(fr)
    # UDP length field that lies, TTL / hop limit extremes in the request, TCP data segments with options
    s = runner.session(cfg_plain(), "wf lying udp length, ttl extremes, tcp options")
    fr = []
    for ln in (0, 7, 8, 9, 28, 29, 1000, 65535):
        fr.append(p4.udp(1234, 3478, stun(1, b"\x05" * 16), length=ln))
        fr.append(p6.udp(1234, 3478, stun(1, b"\x06" * 16), length=ln))
    for ttl in (0, 1, 255):
        fr.append(p4.l3(1, icmp_echo(ttl, 1, b"ttl"), ttl=ttl))
        fr.append(p6.l3(58, icmp6(p6.cip, p6.sip, 128, 0, b"\0\1\0\1hl"), hlim=ttl))
        fr.append(p4.l3(6, tcp(p4.cip, p4.sip, 4000 + ttl, 80, 1, 0, F_SYN), ttl=ttl))
    s.send(fr)
    flows = []
    for i, o in enumerate([b"\x01\x01\x08\x0a" + b"\0" * 8, b"\x01" * 40, b"\x02\x04\x05\xb4"]):
        for pl in (http_request(), ssh_ident(), rpc_call(0x12121212, vers=4, proc=4, tcp=True)):
            flows.append((r.choice([p4, p6]), 6000 + len(flows), 80, 5, pl, o))
    syn = s.send([p.tcp(sp, dp, isn, 0, F_SYN, doff=5 + len(o) // 4, options=o) for (p, sp, dp, isn, pl, o) in flows])
    data = []
    for (p, sp, dp, isn, pl, o), ob in zip(flows, syn):
        if ob["out"] == "reply":
            ck = tcp_fields(bytes(ob["rep"]))["seq"]
            data.append(p.tcp(sp, dp, isn + 1, (ck + 1) & 0xFFFFFFFF, F_PSH | F_ACK, pl, doff=5 + len(o) // 4, options=o))
    s.send(data)
    # requests with IPv4 options (IHL 6..15) and with an IHL below 5: the reply has its own header
    s = runner.session(cfg_plain(), "wf requests with ipv4 options")
    fr = []
    for ihl, opts in ((6, b"\x01\x01\x01\x00"), (7, b"\x07\x07\x04\0\0\0\0\0"), (15, b"\x07\x27\x04" + b"\0" * 37), (8, b"\x44\x0c\x05\x00" + b"\0" * 8)):
        fr.append(eth(SMAC, CMAC, 0x0800, ipv4(C4, S4, 1, icmp_echo(ihl, 1, b"abc"), ihl=ihl, options=opts)))
        fr.append(eth(SMAC, CMAC, 0x0800, ipv4(C4, S4, 6, tcp(C4, S4, 1000 + ihl, 80, 5, 0, F_SYN), ihl=ihl, options=opts)))
        fr.append(eth(SMAC, CMAC, 0x0800, ipv4(C4, S4, 17, udp(C4, S4, 1000 + ihl, 3478, stun(1, bytes([ihl]) * 16)), ihl=ihl, options=opts)))
        fr.append(eth(SMAC, CMAC, 0x0800, ipv4(C4, S4, 6, tcp(C4, S4, 1000 + ihl, 80, 5, 9, F_FIN | F_ACK), ihl=ihl, options=opts)))
    for ihl in (0, 1, 4):
        fr.append(eth(SMAC, CMAC, 0x0800, ipv4(C4, S4, 1, icmp_echo(ihl, 1, b"abcd"), ihl=ihl)))
        fr.append(eth(SMAC, CMAC, 0x0800, ipv4(C4, S4, 17, udp(C4, S4, 999, 3478, stun(1, b"\x09" * 16)), ihl=ihl)))
    for ver in (0, 5, 6, 15):
        fr.append(eth(SMAC, CMAC, 0x0800, ipv4(C4, S4, 1, icmp_echo(ver, 1, b"v"), version=ver)))
    for ff in (0x0000, 0x2000, 0x2001, 0x00b9, 0x8000):     # fragments / reserved bit in the request
        fr.append(eth(SMAC, CMAC, 0x0800, ipv4(C4, S4, 1, icmp_echo(1, 1, b"frag"), flags_frag=ff)))
    for tc in (0x0ff00000, 0x000fffff):                      # IPv6 traffic class / flow label in the request
        f6 = bytearray(p6.echo(1, 2, b"tc"))
        f6[14:18] = struct.pack(">I", 0x60000000 | tc)
        fr.append(bytes(f6))
    s.send(fr)
    # jumbo: the largest IPv4 datagram / IPv6 payload
    big4 = bytes(r.randrange(256) for _ in range(65535 - 20 - 8))
    big6 = bytes(r.randrange(256) for _ in range(65535 - 8))
    s = runner.session(cfg_plain(), "wf jumbo echo")
    s.send([p4.echo(1, 2, big4), p6.echo(1, 2, big6), p4.echo(1, 2, big4[:32000]), p6.echo(1, 2, big6[:32001])])
    # application replies of every protocol on both versions over UDP; DNS names of every length
    s = runner.session(cfg_plain(), "wf app udp")
    fr = []
    for k in range(10 if tier == "quick" else 40):
        for pl in app_requests(r):
            fr.append(p4.udp(r.randrange(65536), r.randrange(65536), pl))
            fr.append(p6.udp(r.randrange(65536), r.randrange(65536), pl))
    for n in (range(1, 64) if tier == "quick" else list(range(1, 64)) * 3):
        fr.append(p4.udp(r.randrange(65536), 53, dns_query(id_=r.randrange(65536), questions=[(b"n" * n,)])))
        fr.append(p4.udp(r.randrange(65536), 53, dns_query(id_=r.randrange(65536), questions=[(b"n" * n, b"q" * (n % 7 + 1)), (b"z",)])))
    s.send(fr)
    s = runner.session(cfg_plain(), "wf app tcp")
    flows = []
    for k in range(6 if tier == "quick" else 30):
        for pl in app_requests(r, tcpmode=True):
            flows.append((r.choice([p4, p6]), 1024 + len(flows), r.randrange(65536), r.randrange(1 << 32), [pl]))
    tcp_batch(s, flows)
    # SYN / FIN replies
    fr = []
    for k in range(300 if tier == "quick" else 2000):
        p = r.choice([p4, p6])
        fr.append(p.tcp(r.randrange(65536), r.randrange(65536), r.randrange(1 << 32), r.randrange(1 << 32), r.choice([F_SYN, F_FIN | F_ACK, F_SYN | F_PSH, F_SYN | F_ECE])))
    s.send(fr)
    # ARP / neighbour discovery replies (solicited-node multicast and unicast destinations, options), all base requests
    for cfg in (cfg_plain(), cfg_self()):
        s = runner.session(cfg, "wf arp/nd/base self=%s" % bool(cfg.self_ips))
        cm = mac(CMAC)
        fr = []
        for dm in (mac(SMAC), b"\xff" * 6, mcast_mac6(S6), bytes.fromhex("333300000001")):
            fr += [f for _, f in base_requests(dm, C4, S4, C6, S6)]
        for k in range(20 if tier == "quick" else 400):
            tgt = S6 if cfg.self_ips else rand_ip6(r)
            src = rand_ip6(r)
            opts = b"".join(bytes([r.choice([1, 14, 5]), 1]) + rb(r, 6) for _ in range(r.randrange(0, 3)))
            dst = r.choice([solicited_node(tgt), ip(tgt), ip("ff02::1")])
            fr.append(eth(r.choice([mac(SMAC), mcast_mac6(tgt), bytes.fromhex("333300000001")]), cm, 0x86DD,
                          ipv6(src, dst, 58, nd_ns(src, dst, tgt, opts), hlim=255)))
            sha = rb(r, 6)
            fr.append(eth(b"\xff" * 6, sha, 0x0806, arp(1, sha, rand_ip4(r), b"\0" * 6, S4 if cfg.self_ips else rand_ip4(r), trailer=rb(r, r.choice([0, 18])))))
        s.send(fr)
    # adaptive zero-checksum search: the echoed id word enters the reply checksum linearly
    gen_zero_checksum(runner, tier, r)


def _reply_l4(rep):
    et = struct.unpack(">H", rep[12:14])[0]
    off = 34 if et == 0x0800 else 54
    return off


def gen_zero_checksum(runner, tier, r):
    s = runner.session(cfg_plain(), "wf adaptive zero checksum")
    p4, p6 = peer4(), peer6()
    for rounds in range(4 if tier == "quick" else 12):
        sport, dport = r.randrange(1, 65536), r.randrange(1, 65535)
        for p in (p4, p6):
            # STUN over UDP: last transaction-id word
            tx = bytes(r.randrange(256) for _ in range(14))
            o = s.send([p.udp(sport, dport, stun(txid=tx + b"\0\0"))])
            if o and o[0]["out"] == "reply":
                rep = bytes(o[0]["rep"])
                c = rep[_reply_l4(rep) + 6:_reply_l4(rep) + 8]
                s.send([p.udp(sport, dport, stun(txid=tx + c))])
            # DNS over UDP/IPv4: the id
            if not p.v6:
                o = s.send([p.udp(sport, 53, dns_query(id_=0, questions=[(b"zero", b"sum")]))])
                if o and o[0]["out"] == "reply":
                    rep = bytes(o[0]["rep"])
                    c = struct.unpack(">H", rep[_reply_l4(rep) + 6:_reply_l4(rep) + 8])[0]
                    s.send([p.udp(sport, 53, dns_query(id_=c, questions=[(b"zero", b"sum")]))])
            # ICMP echo: the identifier
            o = s.send([p.echo(0, 5, b"zero-sum")])
            if o and o[0]["out"] == "reply":
                rep = bytes(o[0]["rep"])
                off = _reply_l4(rep)
                c = struct.unpack(">H", rep[off + 2:off + 4])[0]
                s.send([p.echo(c, 5, b"zero-sum")])
            # TCP: sequence number low word of a FIN|ACK is echoed as the reply's ack (+1): use the ack field instead
            o = s.send([p.tcp(sport, dport, 100, 0, F_FIN | F_ACK)])
            if o and o[0]["out"] == "reply":
                rep = bytes(o[0]["rep"])
                off = _reply_l4(rep)
                c = struct.unpack(">H", rep[off + 16:off + 18])[0]
                s.send([p.tcp(sport, dport, 100, c, F_FIN | F_ACK)])


# ------------------------------------------------------------------ C05
def gen_arp_nd_echo(runner, tier, seed):
    r = rng_for(seed, "C05")
    # several handled addresses, some sharing a solicited-node group / RFC 1112 group: each one is answered for
    a4, b4 = "170.153.136.119", "10.25.136.119"
    a6, b6, c6 = "2001:db8:1::aabb:ccdd", "2001:db8:2::11bb:ccdd", "2001:db8:3::1"
    for cfg in (cfg_plain(), cfg_self()):
        s = runner.session(cfg, "arp/nd/echo: allowed destination MACs, unspecified source self=%s" % (cfg.self_ips,))
        fr = []
        for m in (mac(SMAC), b"\xff" * 6, bytes.fromhex("333300000001"), mcast_mac6(S6), mcast_mac4(S4)):
            fr.append(eth(m, CMAC, 0x86DD, ipv6(C6, S6, 58, icmp6(C6, S6, 128, 0, b"\x12\x34\0\1hello"))))
            fr.append(eth(m, CMAC, 0x86DD, ipv6("fe80::1", "ff02::1", 58, icmp6("fe80::1", "ff02::1", 128, 0, b"\x12\x34\0\1hello"))))
            fr.append(eth(m, CMAC, 0x86DD, ipv6(C6, solicited_node(S6), 58, nd_ns(C6, solicited_node(S6), S6, b"\x01\x01" + mac(CMAC)), hlim=255)))
            fr.append(eth(m, CMAC, 0x0800, ipv4(C4, S4, 1, icmp_echo(1, 2, b"m"))))
            fr.append(eth(m, CMAC, 0x0806, arp(1, CMAC, C4, "00:00:00:00:00:00", S4)))
        # whoever asks is answered: requests whose Ethernet source is the configured MAC, broadcast, zero, a group address
        for cmx in (SMAC, "ff:ff:ff:ff:ff:ff", "00:00:00:00:00:00", "01:00:5e:01:02:03"):
            for m in (mac(SMAC), b"\xff" * 6):
                fr += [f for n_, f in base_requests(m, C4, S4, C6, S6, cmac=cmx) if n_ in ("arp", "echo4", "echo6", "ns", "ns-unicast")]
        # requests followed by Ethernet padding (frames shorter than 60 bytes are padded on the wire), with IPv4 options
        for n in (0, 1, 5, 17, 18):
            d = bytes(range(65, 65 + n))
            for pad in (b"\0" * (46 - 28 - n) if n < 18 else b"\0\0", b"\xaa" * 7):
                fr.append(eth(SMAC, CMAC, 0x0800, ipv4(C4, S4, 1, icmp_echo(n, 7, d))) + pad)
                fr.append(eth(SMAC, CMAC, 0x86DD, ipv6(C6, S6, 58, icmp6(C6, S6, 128, 0, struct.pack(">HH", n, 7) + d))) + pad)
                fr.append(eth(SMAC, CMAC, 0x0800, ipv4(C4, S4, 1, icmp_echo(n, 8, d), ihl=6, options=b"\x01\x01\x01\x00")) + pad)
            fr.append(eth(b"\xff" * 6, CMAC, 0x0806, arp(1, CMAC, C4, "00:00:00:00:00:00", S4, trailer=b"\0" * 18)))
        # ARP probes (sender 0.0.0.0, RFC 5227) and gratuitous requests (sender = target)
        for spa in ("0.0.0.0", S4, "255.255.255.255"):
            for m in (b"\xff" * 6, mac(SMAC)):
                fr.append(eth(m, CMAC, 0x0806, arp(1, CMAC, spa, "00:00:00:00:00:00", S4)))
        # duplicate address detection: the solicitation comes from the unspecified address
        for dst in (solicited_node(S6), S6):
            fr.append(eth(mcast_mac6(S6) if dst != S6 else SMAC, CMAC, 0x86DD, ipv6("::", dst, 58, nd_ns("::", dst, S6), hlim=255)))
        fr.append(eth(SMAC, CMAC, 0x86DD, ipv6("::", S6, 58, icmp6("::", S6, 128, 0, b"\0\1\0\1dad"))))
        s.send(fr)
    for sl in ([a4, b4, a6, b6, c6], [b6, a6], [c6, b6, a6, b4, a4]):
        s = runner.session(Config(SMAC, sl, None, KEYS[0], "none", 0), "arp/nd/echo several self addresses")
        fr = []
        for t6 in (a6, b6, c6, O6):
            fr.append(eth(mcast_mac6(t6), CMAC, 0x86DD, ipv6(C6, solicited_node(t6), 58, nd_ns(C6, solicited_node(t6), t6, b"\x01\x01" + mac(CMAC)), hlim=255)))
            fr.append(eth(SMAC, CMAC, 0x86DD, ipv6(C6, t6, 58, nd_ns(C6, t6, t6), hlim=255)))
            fr.append(Peer(CMAC, SMAC, C6, t6).echo(1, 2, b"multi"))
        for t4 in (a4, b4, O4):
            fr.append(eth(b"\xff" * 6, CMAC, 0x0806, arp(1, CMAC, C4, "00:00:00:00:00:00", t4)))
            fr.append(Peer(CMAC, SMAC, C4, t4).echo(1, 2, b"multi"))
        s.send(fr)
    for cfg in (cfg_plain(), cfg_self(), cfg_plain(level=4)):
        s = runner.session(cfg, "arp/nd/echo self=%s verbosity=%d" % (cfg.self_ips, cfg.level))
        cm = mac(CMAC)
        fr = []
        ops = list(range(0, 17)) + [r.randrange(65536) for _ in range(20)] if tier == "quick" else list(range(65536))
        for op in ops:
            for tpa in (S4, O4):
                fr.append(eth(b"\xff" * 6, cm, 0x0806, arp(op, cm, C4, "00:00:00:00:00:00", tpa)))
        # odd hardware / protocol types and lengths, trailers (Ethernet padding), random addresses
        for (ht, pt, hl, pl) in ((1, 0x0800, 6, 4), (6, 0x0800, 6, 4), (1, 0x86dd, 6, 4), (1, 0x0800, 8, 4), (1, 0x0800, 6, 16), (0, 0, 0, 0)):
            fr.append(eth(SMAC, cm, 0x0806, arp(1, cm, C4, "00:00:00:00:00:00", S4, ht, pt, hl, pl)))
        for k in range(10 if tier == "quick" else 100):
            # relayed / proxied request: ARP sender hardware address differs from the frame's source
            fr.append(eth(b"\xff" * 6, cm, 0x0806, arp(1, rb(r, 6), rand_ip4(r), b"\0" * 6, S4)))
        for k in range(30 if tier == "quick" else 500):
            sha = bytes(r.randrange(256) for _ in range(6))
            fr.append(eth(r.choice([mac(SMAC), b"\xff" * 6]), sha, 0x0806,
                          arp(1, sha, rand_ip4(r), bytes(r.randrange(256) for _ in range(6)), r.choice([S4, rand_ip4(r)]),
                              trailer=bytes(r.randrange(256) for _ in range(r.choice([0, 0, 18, 3]))))))
        s.send(fr)
        # ICMP type / code sweeps
        p4, p6 = peer4(), peer6()
        fr = []
        if tier == "quick":
            pairs = [(t, c) for t in range(256) for c in (0, 1, 255)] + [(t, c) for t in (8, 0, 128, 129, 135, 136) for c in range(256)]
        else:
            pairs = [(t, c) for t in range(256) for c in range(256)]
        for (t, c) in pairs:
            fr.append(p4.l3(1, icmp(t, c, struct.pack(">HH", t, c) + b"data")))
            rest = struct.pack(">HH", t, c) + b"data" if t != 135 else b"\0\0\0\0" + ip(S6)
            fr.append(p6.l3(58, icmp6(p6.cip, p6.sip, t, c, rest)))
        s.send(fr)
        # echo data lengths, identifiers, sequence numbers
        fr = []
        lens = list(range(0, 40)) + [63, 64, 65, 255, 256, 1000, 1471, 1472] if tier == "quick" else list(range(0, 1473))
        for n in lens:
            d = bytes(r.randrange(256) for _ in range(n))
            fr.append(p4.echo(r.randrange(65536), r.randrange(65536), d))
            fr.append(p6.echo(r.randrange(65536), r.randrange(65536), d))
        # echo requests larger than one Ethernet MTU (offloaded / jumbo frames): data still identical
        for n in (1473, 1474, 1500, 1600, 4000, 8972, 20000):
            d = bytes((i * 13 + n) & 255 for i in range(n))
            fr.append(p4.echo(n & 0xffff, 3, d))
            fr.append(p6.echo(n & 0xffff, 3, d))
        # truncated echo (ICMP header only / shorter)
        for n in range(0, 8):
            fr.append(p4.l3(1, icmp_echo(1, 2, b"")[:n]))
            fr.append(p6.l3(58, icmp6(p6.cip, p6.sip, 128, 0, b"\0\1\0\2")[:n]))
        s.send(fr)
        # neighbour solicitations
        fr = []
        for tgt in (S6, O6, C6, "fe80::1"):
            for nopt in range(0, 4):
                opts = b"".join(bytes([r.choice([1, 1, 14, 5]), 1]) + bytes(r.randrange(256) for _ in range(6)) for _ in range(nopt))
                for code in (0, 1):
                    sn = solicited_node(tgt)
                    fr.append(eth(mcast_mac6(tgt) if r.random() < 0.5 else mac(SMAC), cm, 0x86DD,
                                  ipv6(C6, sn, 58, nd_ns(C6, sn, tgt, opts, code), hlim=255)))
                    other = r.choice([S6, O6, "fe80::2", "ff02::1"])          # destination differs from the solicited target
                    fr.append(eth(SMAC, cm, 0x86DD, ipv6(C6, other, 58, nd_ns(C6, other, tgt, opts, code), hlim=255)))
                    fr.append(eth(SMAC, cm, 0x86DD, ipv6(C6, tgt, 58, nd_ns(C6, tgt, tgt, opts, code), hlim=255)))
        # truncated solicitations: every length from the ICMPv6 header up to a full NS
        full = nd_ns(C6, S6, S6, b"\x01\x01" + cm)
        for n in range(0, len(full) + 1):
            fr.append(eth(SMAC, cm, 0x86DD, ipv6(C6, S6, 58, full[:n], hlim=255)))
        # NS carrying options with large length octets
        for l in (0, 2, 31, 32, 255):
            fr.append(eth(SMAC, cm, 0x86DD, ipv6(C6, S6, 58, nd_ns(C6, S6, S6, bytes([1, l]) + b"\0" * 6), hlim=255)))
        s.send(fr)


# ------------------------------------------------------------------ C06
def gen_syn(runner, tier, seed):
    r = rng_for(seed, "C06")
    seqs = [0, 0xffffffff] if tier == "quick" else [0, 1, 0x7fffffff, 0x80000000, 0xfffffffe, 0xffffffff]
    p4, p6 = peer4(), peer6()
    for hist in ("fresh", "validated", "others"):
        if tier == "quick" and hist == "others":
            continue
        s = runner.session(cfg_plain(), "syn flags history=%s" % hist)
        if hist in ("validated", "others"):
            flows = [(p, 5000 if hist == "validated" else 6000, 80, 77, [http_request()[:9]]) for p in (p4, p6)]
            flows += [(p4, 6001, 111, 5, [rpc_call(tcp=True)[:20]])]
            tcp_batch(s, flows)
        fr = []
        for fl in range(512):
            for pay in (b"", b"abc"):
                for sq in seqs:
                    for p in (p4, p6):
                        fr.append(p.tcp(5000, 80, sq, r.randrange(1 << 32) if fl & F_ACK else 0, fl, pay))
        s.send(fr)
    # SYNs as real stacks send them: with options (MSS, SACK-permitted, timestamps, window scale), data offset 6..15
    s = runner.session(cfg_plain(), "syn with tcp options")
    fr = []
    optsets = [b"\x02\x04\x05\xb4", b"\x02\x04\x05\xb4\x04\x02\x08\x0a" + b"\0" * 8 + b"\x01\x03\x03\x07",
               b"\x01" * 40, b"\x02\x04\xff\xff\x01\x01\x04\x02", b"\xfe\x28" + b"\0" * 38, b"\x00" * 4]
    for o in optsets:
        for p in (p4, p6):
            for fl in (F_SYN, F_SYN | F_ECE | F_CWR, F_SYN | F_PSH, F_FIN | F_ACK, F_ACK, F_RST):
                fr.append(p.tcp(r.randrange(65536), r.randrange(65536), r.choice(seqs), r.randrange(1 << 32), fl, b"", doff=5 + len(o) // 4, options=o))
                fr.append(p.tcp(r.randrange(65536), r.randrange(65536), r.choice(seqs), r.randrange(1 << 32), fl, b"dat", doff=5 + len(o) // 4, options=o))
    s.send(fr)
    # any port
    s = runner.session(cfg_plain(), "syn ports")
    fr = []
    for dport in [0, 22, 80, 65535] + [r.randrange(65536) for _ in range(40)]:
        for p in (p4, p6):
            fr.append(p.tcp(r.randrange(65536), dport, r.randrange(1 << 32), 0, r.choice([F_SYN, F_SYN | F_PSH, F_SYN | F_URG, F_SYN | F_CWR, F_SYN | F_ECE])))
    s.send(fr)
    # cookie: retransmission and single-input sensitivity, under several keys
    n = 40 if tier == "quick" else 2000
    base = []
    for k in range(n):
        v6 = r.random() < 0.5
        a, b = (rand_ip6(r), rand_ip6(r)) if v6 else (rand_ip4(r), rand_ip4(r))
        sp, dp = r.randrange(65536), r.randrange(65536)
        alt_a = rand_ip6(r) if v6 else rand_ip4(r)
        alt_b = rand_ip6(r) if v6 else rand_ip4(r)
        # the same tuples under every key: a pair of flows that differ in exactly one input and
        # still share a cookie under three unrelated keys shows that the input is ignored
        variants = [(a, b, sp, dp), (a, b, sp, dp), (alt_a, b, sp, dp), (a, alt_b, sp, dp),
                    (a, b, sp ^ (1 << r.randrange(16)), dp), (a, b, sp, dp ^ (1 << r.randrange(16))), (b, a, dp, sp)]
        if not v6:
            variants.append(("::ffff:" + a, "::ffff:" + b, sp, dp))      # the IPv4-mapped twin: other addresses, other flow
        base.append(variants)
    s = None
    for key in KEYS[:3]:
        cfgk = Config(SMAC, None, None, key, "none", 0)
        if s is None:
            s = runner.session(cfgk, "cookie determinism and sensitivity under three keys")
        else:
            s.reconfigure(cfgk)
        fr = []
        for variants in base:
            for (x, y, p, q) in variants:
                fr.append(Peer(CMAC, SMAC, x, y).tcp(p, q, r.randrange(1 << 32), 0, F_SYN))
        s.send(fr)
    # the key has two halves: three keys that share the first half, three that share the second
    k0, k1 = KEYS[1]
    for name, keys in (("second", [(k0, k1), (k0, k1 ^ 1), (k0, 0)]), ("first", [(k0, k1), (k0 ^ (1 << 63), k1), (0xffffffffffffffff, k1)])):
        s = None
        for key in keys:
            cfgk = Config(SMAC, None, None, key, "none", 0)
            if s is None:
                s = runner.session(cfgk, "cookie under keys differing in their %s half only" % name)
            else:
                s.reconfigure(cfgk)
            s.send([Peer(CMAC, SMAC, x, y).tcp(p, q, 7, 0, F_SYN) for variants in base[:6] for (x, y, p, q) in variants[:1]])


# ------------------------------------------------------------------ C20
def gen_log(runner, tier, seed):
    r = rng_for(seed, "C20")
    for fmt in ("console", "logfmt"):
        for cfg in (Config(SMAC, None, None, KEYS[1], fmt, 0), Config(SMAC, [S4, S6], [D4, D6], KEYS[1], fmt, 0)):
            s = runner.session(cfg, "log %s self=%s" % (fmt, bool(cfg.self_ips)))
            fr = []
            cm = mac(CMAC)
            for m in (mac(SMAC), b"\xff" * 6, bytes.fromhex("020000000001")):
                for (src4, src6) in ((C4, C6), (D4, D6)):
                    for (dst4, dst6) in ((S4, S6), (O4, O6)):
                        fr += [f for _, f in base_requests(m, src4, dst4, src6, dst6)]
            # unusual Ethernet sources: the configured MAC itself, broadcast, zero, a group address
            for cmx in (SMAC, "ff:ff:ff:ff:ff:ff", "00:00:00:00:00:00", "01:00:5e:01:02:03"):
                for m in (mac(SMAC), b"\xff" * 6):
                    fr += [f for _, f in base_requests(m, C4, S4, C6, S6, cmac=cmx)]
            p4, p6 = peer4(), peer6()
            # drops at every layer
            fr += [b"", b"\0" * 13, eth(SMAC, cm, 0x0806, b"\0" * 27), eth(SMAC, cm, 0x0800, b"\x45" + b"\0" * 18),
                   eth(SMAC, cm, 0x86DD, b"\x60" + b"\0" * 38), eth(SMAC, cm, 0x1234, b"hello")]
            for p in (p4, p6):
                fr += [p.l3(1 if not p.v6 else 58, b"\x08\0\0"), p.l3(6, b"\0" * 19), p.l3(17, b"\0" * 7), p.l3(47, b"gre"),
                       p.echo(1, 1, b"x", code=3), p.echo(1, 1, b"x", type_=0 if not p.v6 else 129),
                       p.tcp(1, 2, 3, 4, F_ACK), p.tcp(1, 2, 3, 4, F_RST), p.tcp(1, 2, 3, 4, F_FIN | F_ACK), p.tcp(1, 2, 3, 4, F_SYN | F_ACK),
                       p.tcp(1, 2, 3, 4, F_SYN | F_FIN), p.tcp(1, 2, 3, 4, F_URG), p.tcp(1, 2, 3, 4, F_PSH | F_ACK, b"GET / HTTP/1.0\r\n\r\n"),
                       p.udp(1, 2, b"nothing"), p.udp(1, 2, b""), p.udp(9, 65535, stun(attrs=stun_change_request(False, True), txid=b"\4" * 16))]
                for pl in app_requests(r):
                    fr.append(p.udp(r.randrange(65536), r.randrange(65536), pl))
            fr.append(eth(SMAC, cm, 0x0806, arp(2, cm, C4, SMAC, S4)))
            fr.append(eth(SMAC, cm, 0x86DD, ipv6(C6, S6, 58, nd_ns(C6, S6, S6)[:20], hlim=255)))
            # frames and replies of unusual size: larger than one MTU, minimum size with Ethernet padding
            for n in (1472, 1473, 1600, 8972):
                fr.append(p4.echo(1, 1, b"j" * n))
                fr.append(p6.echo(1, 1, b"j" * n))
            fr.append(p4.udp(1, 2, http_request("GET", b"/" + b"a" * 1500)))
            fr.append(eth(b"\xff" * 6, cm, 0x0806, arp(1, cm, C4, "00:00:00:00:00:00", S4, trailer=b"\0" * 18)))
            # every header word of answered and of dropped frames set to boundary values
            # (fragment fields, lengths, versions, type-of-service, hop limits, ports, flags)
            basef = [p4.echo(7, 7, b"hv"), p6.echo(7, 7, b"hv"), p4.udp(4000, 80, http_request()), p6.udp(4000, 80, http_request()),
                     p4.tcp(4001, 80, 5, 0, F_SYN), p6.tcp(4001, 80, 5, 0, F_SYN), p4.tcp(4002, 80, 5, 6, F_ACK), p4.udp(4003, 80, b"nothing"),
                     eth(b"\xff" * 6, cm, 0x0806, arp(1, cm, C4, "00:00:00:00:00:00", S4)),
                     eth(SMAC, cm, 0x86DD, ipv6(C6, S6, 58, nd_ns(C6, S6, S6, b"\x01\x01" + cm), hlim=255))]
            for f in basef:
                fr += header_variants(f, r, tier)
            s.send(fr)
            flows = [(p, 7000 + i, 80, 1, [pl]) for i, pl in enumerate(app_requests(r, tcpmode=True)) for p in (p4, p6)]
            tcp_batch(s, flows)
            if tier != "quick":
                fr = []
                for k in range(400):
                    b = bytearray(r.choice(s.frames[:200]) or b"")
                    if b:
                        b[r.randrange(len(b))] ^= 1 << r.randrange(8)
                    fr.append(bytes(b))
                s.send(fr)


# ------------------------------------------------------------------ C07 / C08 / C09 / C11 (TCP)
HTTP_REQS = [http_request(), http_request("POST", b"/form", headers=[b"Host: h", b"Content-Length: 0"]),
             http_request("OPTIONS", b"/*", b"HTTP/1.0", eol=b"\n"), http_request("DELETE", b"/a/b?c=d", headers=[b"X-Y: z"], eol=b"\n"),
             http_request("HEAD", b"/\xff\xfe", headers=[b"A: b", b"C: d"]), http_request("CONNECT", b"/", b"HTTP/2.0"),
             http_request("PUT", b"/p", headers=[b"K:v"]), http_request("TRACE", b"/t"), http_request("PATCH", b"/x", eol=b"\n")]


def rpc_reqs(r):
    return [rpc_call(xid=0x80000000 | r.randrange(1 << 24), vers=2, proc=3, args=struct.pack(">IIII", 100003, 3, 6, 0), tcp=True),
            rpc_call(xid=0x7f000000 | r.randrange(1 << 24), vers=4, proc=4, tcp=True),
            rpc_call(xid=0x01000000 | r.randrange(1 << 24), vers=3, proc=0, cred=b"\0" * 4, tcp=True),
            rpc_call(xid=0x02000000 | r.randrange(1 << 24), vers=104316, proc=0, cred=b"abcd1234", tcp=True),
            rpc_call(xid=0x03000000 | r.randrange(1 << 24), prog=100005, vers=3, proc=1, tcp=True),
            rpc_call(xid=0x04000000 | r.randrange(1 << 24), vers=2, proc=77, tcp=True)]


def split_at(b, cuts):
    out, last = [], 0
    for c in cuts:
        out.append(b[last:c])
        last = c
    out.append(b[last:])
    return out


class Flow:
    """Client side of one TCP flow (tracks its own sequence number, knows its cookie once
    the SYN-ACK has been seen - exactly what a real client knows)."""

    def __init__(self, peer, sport, dport, isn):
        self.peer, self.sport, self.dport = peer, sport, dport
        self.seq = isn & 0xFFFFFFFF
        self.ck = None

    def syn(self, flags=F_SYN):
        f = self.peer.tcp(self.sport, self.dport, self.seq, 0, flags)
        return f

    def learn(self, obs):
        if obs["out"] == "reply":
            self.ck = tcp_fields(bytes(obs["rep"]))["seq"]
            self.seq = (self.seq + 1) & 0xFFFFFFFF

    def data(self, payload, ack=None, flags=F_PSH | F_ACK, advance=True, **kw):
        a = ((self.ck or 0) + 1) & 0xFFFFFFFF if ack is None else ack & 0xFFFFFFFF
        f = self.peer.tcp(self.sport, self.dport, self.seq, a, flags, payload, **kw)
        if advance:
            self.seq = (self.seq + len(payload)) & 0xFFFFFFFF
        return f

    def raw(self, flags, payload=b"", ack=None, **kw):
        a = ((self.ck or 0) + 1) & 0xFFFFFFFF if ack is None else ack & 0xFFFFFFFF
        return self.peer.tcp(self.sport, self.dport, self.seq, a, flags, payload, **kw)


def open_flows(s, flows):
    obs = s.send([f.syn() for f in flows])
    for f, o in zip(flows, obs):
        f.learn(o)
    return [f for f in flows if f.ck is not None]


def noise(r):
    p4, p6 = peer4(), peer6()
    cm = mac(CMAC)
    return r.choice([
        eth(b"\xff" * 6, cm, 0x0806, arp(1, cm, C4, "00:00:00:00:00:00", S4)),
        p4.echo(r.randrange(65536), 1, b"n"), p6.echo(r.randrange(65536), 1, b"n"),
        p4.udp(r.randrange(65536), 80, http_request()), p6.udp(r.randrange(65536), 111, rpc_call()),
        p4.udp(r.randrange(65536), 53, dns_query(id_=r.randrange(65536))),
        p4.tcp(r.randrange(65536), 80, r.randrange(1 << 32), r.randrange(1 << 32), r.choice([F_ACK, F_RST, F_FIN | F_ACK, F_SYN, F_RST | F_ACK])),
        p6.tcp(r.randrange(65536), 80, r.randrange(1 << 32), r.randrange(1 << 32), r.choice([F_ACK, F_RST, F_FIN | F_ACK, F_SYN])),
        p4.tcp(r.randrange(65536), 80, r.randrange(1 << 32), r.randrange(1 << 32), F_PSH | F_ACK, b"GET / HTTP/1.1\r\n\r\n"),
    ])


def gen_tcp_gate(runner, tier, seed):
    r = rng_for(seed, "C07")
    rounds = 6 if tier == "quick" else 60
    for rd in range(rounds):
        s = runner.session(cfg_plain(key=KEYS[rd % 3], level=4 if rd % 3 == 2 else 0), "tcp gate round %d" % rd)
        peers = [peer4(), peer6(), Peer(CMAC, SMAC, rand_ip4(r), rand_ip4(r)), Peer(CMAC, SMAC, rand_ip6(r), rand_ip6(r))]
        isns = [0, 1, 0x7fffffff, 0x80000000, 0xfffffffe, 0xffffffff, 0xfffffff0]
        flows = [Flow(r.choice(peers), 1024 + i, r.choice([22, 80, 111, 445, r.randrange(65536)]), r.choice(isns + [r.randrange(1 << 32)]))
                 for i in range(12)]
        # before any SYN: data with an arbitrary acknowledgement (cookie still unknown to the model)
        s.send([f.raw(F_PSH | F_ACK, b"early", ack=r.randrange(1 << 32)) for f in flows[:4]])
        live = open_flows(s, flows)
        script = []
        for f in live:
            ck = f.ck
            steps = []
            for bad in (0, ck, (ck + 2) & 0xFFFFFFFF, r.randrange(1 << 32), (ck + 0x10000) & 0xFFFFFFFF, (ck + 1) ^ 0x80000000):
                if bad != (ck + 1) & 0xFFFFFFFF:
                    steps.append(("raw", F_PSH | F_ACK | r.choice([0, 0, F_FIN, F_URG, F_SYN, F_RST]), r.choice([b"", b"x", HTTP_REQS[0]]), bad))
            steps.append(("raw", F_ACK, b"", None))
            steps.append(("raw", F_RST, b"", None))
            steps.append(("raw", F_FIN | F_ACK, b"", None))
            steps.append(("raw", F_RST | F_ACK, b"", None))
            req = r.choice(HTTP_REQS + rpc_reqs(r))
            cut = r.randrange(0, len(req) + 1)
            k = r.random()
            first = b"" if k < 0.15 else (req[:1] if k < 0.3 else req[:cut])
            rest = req[len(first):]
            steps.append(("data", F_PSH | F_ACK | r.choice([0, 0, 0, F_FIN, F_URG, F_SYN, F_RST, F_ECE, F_NS]), first, None))
            steps.append(("raw", F_SYN, b"", None))                       # a retransmitted SYN on a validated flow
            if rest:
                steps.append(("data", F_PSH | F_ACK, rest, None))
            steps.append(("data", F_PSH | F_ACK, b"more", r.choice([None, None, 0, r.randrange(1 << 32)])))
            steps.append(("raw", F_ACK, b"", None))
            steps.append(("raw", F_FIN | F_ACK, r.choice([b"", b"", b"bye"]), None))
            steps.append(("raw", F_RST, b"", None))
            script.append((f, steps))
        # every flag combination without PSH|ACK, on a validated and on a never-seen flow
        if rd < 2:
            sweep = []
            fv = live[0] if live else None
            for fl in range(512):
                if fl & F_PSH and fl & F_ACK:
                    continue
                if fv is not None:
                    sweep.append(("late", fv, fl))
                sweep.append(("fresh", None, fl))
        else:
            sweep = []
        # interleave the per-flow scripts in a seeded random order
        frames = []
        idx = [0] * len(script)
        while any(i < len(st) for i, (_, st) in zip(idx, script)):
            k = r.choice([j for j in range(len(script)) if idx[j] < len(script[j][1])])
            f, st = script[k]
            kind, flags, pay, ack = st[idx[k]]
            idx[k] += 1
            kw = tcp_opts(r.randrange(60))
            frames.append(l3_variant(f.data(pay, ack, flags, **kw) if kind == "data" else f.raw(flags, pay, ack, **kw), r.randrange(44)))
            if r.random() < 0.15:
                frames.append(noise(r))
        s.send(frames)
        fr = []
        for kind, fv, fl in sweep:
            if kind == "late":
                fr.append(fv.raw(fl, r.choice([b"", b"", b"z"])))
            else:
                p = r.choice(peers)
                fr.append(p.tcp(40000 + (fl % 20000), 80, r.randrange(1 << 32), r.randrange(1 << 32), fl, r.choice([b"", b"", b"z"])))
        s.send(fr)


def gen_interference(runner, tier, seed):
    """C08.  Every frame of an interleaved multi-flow history is also executed after only the
    accepted data segments of its own flow (the restricted history, run first, on an empty
    table); paired events are compared by the specification (Stack!PairJudge)."""
    r = rng_for(seed, "C08")
    rounds = 8 if tier == "quick" else 80
    for rd in range(rounds):
        s = runner.session(cfg_plain(key=KEYS[rd % 3]), "interference round %d" % rd)
        nf = r.choice([2, 3, 5, 8, 16])
        peers = [peer4(), peer6()]
        if rd % 2 == 0:
            flows = [Flow(r.choice(peers), 2000 + i, r.choice([80, 111, 8080]), r.randrange(1 << 32)) for i in range(nf)]
        else:
            # flows that differ in exactly one input (client address, server address, source port,
            # destination port), both versions: the closest neighbours in the flow space
            c4b, s4b, c6b, s6b = rand_ip4(r), rand_ip4(r), rand_ip6(r), rand_ip6(r)
            sp, dp = r.randrange(1024, 65535), r.choice([80, 111])
            flows = []
            for (ca, sa) in ((C4, S4), (c4b, S4), (C4, s4b), (C6, S6), (c6b, S6), (C6, s6b)):
                flows.append(Flow(Peer(CMAC, SMAC, ca, sa), sp, dp, r.randrange(1 << 32)))
            flows.append(Flow(Peer(CMAC, SMAC, C4, S4), sp + 1, dp, r.randrange(1 << 32)))
            flows.append(Flow(Peer(CMAC, SMAC, C6, S6), sp, dp + 1, r.randrange(1 << 32)))
            flows.append(Flow(Peer(CMAC, SMAC, C4, S4), dp, sp, r.randrange(1 << 32)))
            flows.append(Flow(Peer(CMAC, SMAC, "::ffff:" + C4, "::ffff:" + S4), sp, dp, r.randrange(1 << 32)))   # IPv4-mapped twin of the first
        live = open_flows(s, flows)
        plans = []
        for f in live:
            req = r.choice(HTTP_REQS + rpc_reqs(r))
            ncuts = r.choice([0, 1, 1, 2, 3, 5])
            cuts = sorted(set(r.randrange(1, len(req)) for _ in range(ncuts)))
            plans.append([f, split_at(req, cuts)])
        seq = []                       # (frame, flow index or None)
        while any(p[1] for p in plans):
            k = r.choice([j for j, q in enumerate(plans) if q[1]])
            seq.append((plans[k][0].data(plans[k][1].pop(0)), k))
            x = r.random()
            if x < 0.25:
                seq.append((noise(r), None))
            elif x < 0.35:
                f = r.choice(live)
                seq.append((f.peer.udp(f.sport, f.dport, r.choice(HTTP_REQS)), None))      # same 4-tuple over UDP
            elif x < 0.45:
                f = r.choice(live)
                seq.append((f.raw(r.choice([F_ACK, F_SYN, F_RST, F_FIN | F_ACK])), None))  # non-data TCP on a live flow
            elif x < 0.56:
                # data with a wrong acknowledgement on a flow that never validated, sent twice
                p = r.choice(peers)
                fz = p.tcp(r.randrange(50000, 60000), 80, r.randrange(1 << 32), r.randrange(1, 1 << 32), F_PSH | F_ACK, r.choice(HTTP_REQS))
                seq.append((fz, None))
                seq.append((fz, None))
            elif x < 0.5:
                k2 = r.randrange(len(plans))
                # data with a wrong acknowledgement: part of that flow's own history if the flow is already validated
                seq.append((plans[k2][0].raw(F_PSH | F_ACK, b"intruder", ack=r.randrange(1 << 32)), k2))
        # restricted histories first: each flow alone, then the stateless frames
        for k in range(len(plans)):
            s.reset()
            idx = [i for i, (_, fk) in enumerate(seq) if fk == k]
            s.send([seq[i][0] for i in idx], pair=[i + 1 for i in idx])
        for i, (f, fk) in enumerate(seq):
            if fk is None:
                s.reset()                                   # each stateless frame alone, on an empty table
                s.send([f], pair=i + 1)
        # the full interleaved history
        s.reset()
        s.send([f for f, _ in seq], pair=[i + 1 for i in range(len(seq))])


COLLISION = {"key": (0, 0), "a": ("1.2.3.4", 1245, "5.6.7.8", 240), "b": ("1.2.3.4", 1279, "5.6.7.8", 123)}


def collision_witness(runner, prop):
    """The listed witness of the cookie-keyed connection table: two flows with equal cookies."""
    w = COLLISION
    s = runner.session(Config(SMAC, None, None, w["key"], "none", 0), "known finding witness: flows with equal SYN cookies")
    pa = Peer(CMAC, SMAC, w["a"][0], w["a"][2])
    pb = Peer(CMAC, SMAC, w["b"][0], w["b"][2])
    fa, fb = Flow(pa, w["a"][1], w["a"][3], 100), Flow(pb, w["b"][1], w["b"][3], 200)
    # (C08) the restricted history of B's segment: nothing
    intr = fb.raw(F_PSH | F_ACK, b"TP/1.1\r\n\r\n", ack=12345)
    s.send([intr], pair=1)
    s.reset()
    open_flows(s, [fa, fb])
    if fa.ck is None or fb.ck is None or fa.ck != fb.ck:
        return s                               # the cookies are no longer equal: nothing to show
    s.send([fa.data(b"GET / HT")])
    s.send([intr], pair=1)                     # B, never validated, wrong acknowledgement
    if prop == "C09":
        s.send([fb.data(b"x")])                # B validates: no second table entry
    return s


def known_witnesses(runner, prop, r=None):
    """Re-execute the witness of every known finding listed for this property."""
    import tv
    for ent in tv.known_entries():
        if ent["property"] != prop:
            continue
        key = ent["key"]
        if ":equal-cookies" in key:
            collision_witness(runner, prop)
        elif key.startswith("shadow:RPC-UDP:0:"):
            b = int(key.split(":")[-1])
            s = runner.session(cfg_plain(), "known finding witness: " + key)
            s.send([peer4().udp(40000, 111, rpc_call(xid=(b << 24) | 0x345678, vers=2, proc=3))])
        elif key == "shadow:RPC-TCP:4:0":
            s = runner.session(cfg_plain(), "known finding witness: " + key)
            tcp_batch(s, [(peer4(), 40001, 111, 7, [rpc_call(xid=0x00345678, vers=2, proc=3, tcp=True)])])
        elif key == "shadow:STUN-magic:2:0":
            s = runner.session(cfg_plain(), "known finding witness: " + key)
            s.send([peer4().udp(40002, 3478, stun(1, STUN_MAGIC + b"\x01" * 12, stun_attr(0x8022, b"k" * 80)))])


def gen_flood(runner, tier, seed):
    r = rng_for(seed, "C09")
    # thorough: several independent floods (TLC follows one behaviour for at most 65535 states, and the
    # model's cookie map grows with every new flow), validated in parallel
    for rd in range(1 if tier == "quick" else 10):
        _flood_round(runner, r, 3000 if tier == "quick" else 20000, rd)


def _flood_round(runner, r, n, rd):
    s = runner.session(cfg_plain(key=KEYS[rd % 3]), "flood %d" % rd)
    p4, p6 = peer4(), peer6()
    flows = [Flow(r.choice([p4, p6]), 3000 + i, 80, r.randrange(1 << 32)) for i in range(6)]
    sent_valid = 0
    batch = []
    for i in range(n):
        x = r.random()
        if x < 0.45:
            p = Peer(CMAC, SMAC, rand_ip4(r), S4) if r.random() < 0.5 else Peer(CMAC, SMAC, rand_ip6(r), S6)
            batch.append(p.tcp(r.randrange(65536), r.randrange(65536), r.randrange(1 << 32), r.randrange(1 << 32), r.randrange(512) | F_SYN,
                               b"" if r.random() < 0.8 else b"syn-data"))
        elif x < 0.65:
            p = Peer(CMAC, SMAC, rand_ip4(r), S4) if r.random() < 0.5 else Peer(CMAC, SMAC, rand_ip6(r), S6)
            badack = r.choice([0, 0, 1, 0xffffffff, 0x80000000, r.randrange(1 << 32), r.randrange(1 << 32)])
            sp, dp, sq = r.randrange(65536), r.randrange(65536), r.randrange(1 << 32)
            frame = p.tcp(sp, dp, sq, badack, F_PSH | F_ACK | r.choice([0, F_FIN, F_URG]),
                          r.choice([b"", b"GET / HTTP/1.1\r\n\r\n", b"\x80\0\0\x28"]))
            if r.random() < 0.8:
                batch.append(p.tcp(sp, dp, (sq - 1) & 0xFFFFFFFF, 0, F_SYN))     # the SYN-ACK binds the flow's cookie in the model
            batch.append(frame)
            if r.random() < 0.3:
                batch.append(frame)                 # retransmitted: still unvalidated
        elif x < 0.8:
            p = r.choice([p4, p6])
            batch.append(p.tcp(r.randrange(65536), r.randrange(65536), r.randrange(1 << 32), r.randrange(1 << 32), r.choice([F_FIN | F_ACK, F_RST, F_ACK, F_FIN, F_RST | F_ACK, 0, F_URG])))
        elif x < 0.97:
            batch.append(noise(r))
        else:
            batch.append(None)      # a genuine validation happens here
    # run, replacing the None markers by genuine validated segments (2 per flow, so "at most once per flow" is exercised)
    out = []
    opened = False
    cur = []
    for b in batch:
        if b is None:
            if cur:
                s.send(cur)
                cur = []
            if not opened:
                flows = open_flows(s, flows)
                opened = True
            if flows:
                f = r.choice(flows)
                cur.append(f.data(r.choice([b"", b"G", b"GET /", b"\x80\0"])))
        else:
            cur.append(b)
    if cur:
        s.send(cur)


def gen_segmentation(runner, tier, seed):
    r = rng_for(seed, "C11")
    reqs = HTTP_REQS[:4] + rpc_reqs(r)[:3] if tier == "quick" else HTTP_REQS + rpc_reqs(r)
    # streams whose answer the statements leave open are cut-independent all the same (relation `segs` of the
    # specification): blanks around the colon, stray CRs, long version numbers, header lines without a colon,
    # a body after the empty line, two requests in one stream, an RPC call followed by a second record
    odd = [http_request("GET", b"/", headers=[b"Host : x", b"A :b"]), http_request("GET", b"/", headers=[b"Host\t:\tx"], eol=b"\n"),
           b"GET / HTTP/1.1\r\r\nHost: a\r\r\n\r\r\n", b"GET / HTTP/11.10\r\nA: b\r\n\r\n", b"GET / HTTP/1.1\r\nno colon here\r\n\r\n",
           b"POST /p HTTP/1.1\r\nContent-Length: 5\r\n\r\nhello", http_request("GET", b"/1") + http_request("GET", b"/2"),
           b"GET / HTTP/1.1\nX-Empty:\n\n", b"GET / HTTP/1.1\r\n: novalue\r\n\r\n", b"GET /a b HTTP/1.1\r\n\r\n",
           rpc_call(xid=0x05000000 | r.randrange(1 << 24), vers=2, proc=3, args=struct.pack(">IIII", 100003, 3, 6, 0), tcp=True)
           + rpc_call(xid=0x06000000 | r.randrange(1 << 24), vers=2, proc=0, tcp=True)]
    nclean = len(reqs)
    reqs = reqs + (odd[:2] + odd[7:8] + r.sample(odd, 2) if tier == "quick" else odd)
    port = 4000
    for qi, req in enumerate(reqs):
        s = runner.session(cfg_plain(key=KEYS[qi % 3]), "segmentation request %d (%d bytes)" % (qi, len(req)))
        n = len(req)
        plans = [[req]]
        plans += [split_at(req, [c]) for c in range(1, n)]                       # every 1-cut
        if tier == "quick":
            plans += [split_at(req, sorted(r.sample(range(1, n), 2))) for _ in range(30)]
        else:
            two = [split_at(req, [a, b]) for a in range(1, n) for b in range(a + 1, n)]             # every 2-cut (bounded)
            plans += two[:4000] if qi < nclean else r.sample(two, min(len(two), 700))
        plans += [[req[i:i + 1] for i in range(n)]]                              # byte by byte
        plans += [split_at(req, sorted(set(r.randrange(1, n) for _ in range(r.randrange(3, 9))))) for _ in range(10 if tier == "quick" else 200)]
        # empty data segments before, inside and after the request (a legal cut: zero bytes)
        for c in ([0, 1, 2, 3, 4, 5, n // 2, n - 1, n] if tier == "quick" else range(0, n + 1)):
            plans.append([req[:c], b"", req[c:]] if 0 < c < n else ([b"", req] if c == 0 else [req, b""]))
            plans.append([req[:c], b"", b"", req[c:]])
        peers = [peer4(), peer6()]
        for chunk in chunks(plans, 60):
            flows = []
            for pl in chunk:
                port += 1
                # mostly one contacted endpoint per stream (answers are then compared byte for byte), sometimes another
                pe = peers[qi % 2] if r.random() < 0.7 else r.choice(peers)
                dp = [80, 111, 2049, 31337][qi % 4] if r.random() < 0.7 else r.choice([80, 111, 2049, 31337])
                flows.append((Flow(pe, 1024 + (port % 60000), dp, r.randrange(1 << 32)), pl))
            live = open_flows(s, [f for f, _ in flows])
            frames = []
            # interleave the flows round-robin so that segments of different flows alternate
            pending = [[f, list(pl)] for f, pl in flows if f.ck is not None]
            while pending:
                for item in list(pending):
                    frames.append(item[0].data(item[1].pop(0), **tcp_opts(len(frames))))
                    if not item[1]:
                        pending.remove(item)
            s.send(frames, seg=qi + 1)          # every flow of this session carries the same byte stream


# ------------------------------------------------------------------ application protocols (C13 - C18)
def send_payloads(runner, label, payloads, r, tier, cfg=None, tcp=True, udp=True, v6=True):
    """Send each payload over UDP and as the first segment of a fresh TCP flow, on random ports."""
    s = runner.session(cfg or cfg_plain(), label)
    p4, p6 = peer4(), peer6()
    if udp:
        fr = []
        for pl in payloads:
            # over IPv4 a sender may transmit no UDP checksum at all (field 0): as valid as a computed one
            fr.append(l3_variant(p4.udp(r.randrange(65536), r.randrange(65536), pl, zero_csum=(len(fr) % 7 == 3)), len(fr)))
            if v6:
                fr.append(l3_variant(p6.udp(r.randrange(65536), r.randrange(65536), pl), len(fr)))
        for ch in chunks(fr, 3000):          # resets are cut points for the parallel validation (and TLC follows
            s.send(ch)                       # a single behaviour for at most 65535 states)
            s.reset()
    if tcp:
        port = [1024]
        for ch in chunks(payloads, 400):
            s.reset()
            flows = []
            for pl in ch:
                port[0] += 1
                flows.append((r.choice([p4, p6]) if v6 else p4, port[0], r.randrange(65536), r.randrange(1 << 32), [pl]))
            tcp_batch(s, flows)
    if cfg is None and payloads:
        # what is printed for diagnosis must not change the outcome: a sample again with every
        # diagnostic level enabled (debug!/info!/warn! arguments are only evaluated then)
        sample = list(payloads) if len(payloads) <= 60 else r.sample(list(payloads), 60 if tier == "quick" else 600)
        send_payloads(runner, label + " (verbosity 4)", sample, r, tier, cfg=cfg_plain(level=4), tcp=tcp, udp=udp, v6=v6)
    return s


def rb(r, n, alphabet=None):
    if alphabet is None:
        return bytes(r.randrange(256) for _ in range(n))
    return bytes(r.choice(alphabet) for _ in range(n))


def gen_http(runner, tier, seed):
    r = rng_for(seed, "C13")
    pl = []
    target_alpha = [c for c in range(33, 127)] + [0x80, 0xff, 0xc3, 0x28, 0x00, 0x09]
    n = 6 if tier == "quick" else 120
    for verb in HTTP_VERBS:
        for k in range(n):
            target = b"/" + rb(r, r.randrange(0, 24), target_alpha)
            ver = b"HTTP/" + str(r.choice([0, 1, 2, 9, 10, 11])).encode() + b"." + str(r.choice([0, 1, 9, 12])).encode()
            eol = r.choice([b"\r\n", b"\n"])
            hs = []
            for _ in range(r.choice([0, 0, 1, 2, 5])):
                hs.append(rb(r, r.randrange(1, 12), list(range(65, 91)) + list(range(97, 123)) + [45]) + b":" + r.choice([b"", b" "]) +
                          rb(r, r.randrange(0, 20), [c for c in range(32, 127)] + [0xe9, 0x09]))
            req = http_request(verb, target, ver, hs, eol, body=r.choice([b"", b"", b"body=1", rb(r, 9)]))
            pl.append(req)
            # every single-token fault of the clean request
            toks = [verb.encode(), b" ", target, b" ", ver, eol] + [x for h in hs for x in (h, eol)] + [eol]
            for i in range(len(toks)):
                mode = r.choice(["del", "dup", "sub"]) if tier == "quick" else None
                for m in ([mode] if mode else ["del", "dup", "sub"]):
                    t2 = list(toks)
                    if m == "del":
                        del t2[i]
                    elif m == "dup":
                        t2.insert(i, toks[i])
                    else:
                        t2[i] = r.choice([b"", b"\r", b"\n", b" ", b"x", b":", b"HTTP/", b"http/1.1", b"\r\r\n", b"HTTP/1.", b"HTTP/.1", b"get", b"FOO", b"\0", b"/"])
                    pl.append(b"".join(t2))
    # every byte value once in the target, in a header value and in a header name
    for b in range(256):
        if b not in (32, 13, 10):
            pl.append(http_request(r.choice(HTTP_VERBS), b"/a" + bytes([b]) + b"z", eol=r.choice([b"\r\n", b"\n"])))
        if b not in (13, 10):
            pl.append(http_request("GET", b"/", headers=[b"X-Val: v" + bytes([b]) + b"w"]))
        if b not in (13, 10, 58, 32, 9):
            pl.append(http_request("GET", b"/", headers=[b"N" + bytes([b]) + b"m: v", b"Host: h"]))
    # header values of every small shape (empty, one blank, one byte, blanks around), as the first, a middle and the
    # last header line, with both line ends, with and without a body after the empty line
    for eol in (b"\r\n", b"\n"):
        for val in (b"", b" ", b"\t", b"x", b" x", b"x ", b"  ", b":", b" :", b"::"):
            h = b"X-E:" + val
            for hs in ([h], [h, b"Host: a"], [b"Host: a", h], [b"Host: a", h, b"B: c"], [h, h]):
                pl.append(http_request(r.choice(HTTP_VERBS), b"/", headers=hs, eol=eol))
            pl.append(http_request("POST", b"/", headers=[b"Host: a", h], eol=eol, body=b"k=v"))
            pl.append(http_request("GET", b"/", headers=[b"n:" + val], eol=eol))
    for maj in (b"0", b"1", b"9", b"10", b"123456789"):
        for mnr in (b"0", b"1", b"9", b"11", b"000"):
            pl.append(http_request("GET", b"/v", b"HTTP/" + maj + b"." + mnr))
    # method case, unknown methods, no space, etc.
    pl += [b"get / HTTP/1.1\r\n\r\n", b"Get / HTTP/1.1\r\n\r\n", b"FOO / HTTP/1.1\r\n\r\n", b"GET/ HTTP/1.1\r\n\r\n", b"GETX / HTTP/1.1\r\n\r\n",
           b"GET  / HTTP/1.1\r\n\r\n", b"GET / HTTP/1.1", b"GET / HTTP/1.1\r\n", b"GET / HTTP/1.1\r\nHost: x\r\n", b"GET /", b"GET / ",
           b"PROPFIND / HTTP/1.1\r\n\r\n", b"GET / HTTP/1.1\r\nNoColonHere\r\n\r\n", b"GET / HTTP/1.1\nNoColon\n\n",
           b"GET / HTTP/1.1\r\n\r\nGET / HTTP/1.1\r\n\r\n", b"GET /\xff\xfe\xfd HTTP/1.1\r\n\r\n", b"GET /" + b"A" * 1200 + b" HTTP/1.1\r\n\r\n"]
    # long targets with bytes that are not ASCII / not UTF-8 around every small offset
    hot = [0x80, 0xff, 0xc3, 0xa9, 0xe2, 0x82, 0xac, 0xf0]
    longs = []
    for k in range(40 if tier == "quick" else 400):
        n = r.choice([60, 62, 63, 64, 65, 66, 70, 127, 128, 129, 255, 256, 300])
        t = bytearray(rb(r, n, list(range(97, 123))))
        for _ in range(r.randrange(1, 6)):
            t[r.randrange(max(1, n - 8), n) if r.random() < 0.5 else r.randrange(n)] = r.choice(hot)
        for o in (61, 62, 63):
            if o < n and r.random() < 0.5:
                t[o] = r.choice(hot)
        longs.append(http_request(r.choice(HTTP_VERBS), b"/" + bytes(t), eol=r.choice([b"\r\n", b"\n"])))
    pl += longs
    send_payloads(runner, "http grammar and single faults", pl, r, tier)
    # the same under every diagnostic verbosity (the outcome must not depend on what is printed)
    for lvl in (1, 3):
        sample = longs + r.sample(pl, 60 if tier == "quick" else 600)
        send_payloads(runner, "http at verbosity %d" % lvl, sample, r, tier, cfg=Config(SMAC, None, None, KEYS[0], "none", lvl), v6=False)
    # several requests one after the other on one flow (each completed by its own segment, or cut)
    s = runner.session(cfg_plain(), "http successive requests on one flow")
    flows = []
    for i in range(12 if tier == "quick" else 200):
        reqs = [http_request(r.choice(HTTP_VERBS), b"/" + rb(r, r.randrange(0, 9), list(range(97, 123))), eol=r.choice([b"\r\n", b"\n"]),
                             headers=[b"Host: h"] * r.choice([0, 1])) for _ in range(r.choice([2, 2, 3, 4]))]
        segs = []
        for q in reqs:
            if r.random() < 0.4:
                c = r.randrange(1, len(q))
                segs += [q[:c], q[c:]]
            else:
                segs.append(q)
        flows.append((r.choice([peer4(), peer6()]), 21000 + i, r.choice([80, 8080, r.randrange(65536)]), r.randrange(1 << 32), segs))
    tcp_batch(s, flows)
    # byte by byte over TCP for a sample
    s = runner.session(cfg_plain(), "http byte by byte")
    flows = []
    for i, q in enumerate(r.sample(pl, 20 if tier == "quick" else 400)):
        flows.append((peer4(), 20000 + i, 80, i, [q[j:j + 1] for j in range(len(q))]))
    tcp_batch(s, flows)


def gen_dns(runner, tier, seed):
    r = rng_for(seed, "C14")
    pl = []

    def name(r):
        labels = []
        total = 1
        for _ in range(r.choice([1, 1, 2, 3, 4, 8])):
            l = r.choice([1, 2, 3, 7, 20, 62, 63])
            if total + l + 1 > 255:
                break
            labels.append(rb(r, l, list(range(97, 123)) + list(range(48, 58)) + [45, 95, 0x80, 0xff, 0x2e]))
            total += l + 1
        return tuple(labels) or (b"a",)
    ids = [0, 1, 0xffff] + [r.randrange(65536) for _ in range(5)]
    flagwords = [0, 0x0100] + [1 << b for b in range(16)] + [r.randrange(65536) for _ in range(150 if tier == "quick" else 4000)]
    for fw in flagwords:
        pl.append(dns_query(r.choice(ids), fw, [name(r)]))
    for qn in range(0, 5):
        for _ in range(15 if tier == "quick" else 60):
            pl.append(dns_query(r.choice(ids), r.choice([0, 0x0100]), [name(r) for _ in range(qn)]))
    # the same name asked several times, names that are prefixes / suffixes of each other
    for _ in range(4 if tier == "quick" else 40):
        nm = name(r)
        pl.append(dns_query(r.choice(ids), 0x0100, [nm, nm]))
        pl.append(dns_query(r.choice(ids), 0x0100, [nm, name(r), nm]))
        pl.append(dns_query(r.choice(ids), 0x0100, [nm, nm[1:] or (b"x",), nm + (b"tail",)]))
    for b in range(1, 256):
        pl.append(dns_query(b, 0x0100, [(b"l" + bytes([b]) + b"x", b"com")]))
    for total in range(246, 256):                       # names of total wire length 246..255
        rest = total - 1 - 64 * 3
        pl.append(dns_query(total, 0x0100, [(b"a" * 63, b"b" * 63, b"c" * 63, b"d" * (rest - 1))]))
    for n in (5, 8, 16, 32, 64):
        pl.append(dns_query(n, 0x0100, [(bytes([97 + i % 26]),) for i in range(n)]))
    for n in (255, 256, 257, 300):                       # counts crossing one byte
        pl.append(dns_query(n, 0x0100, [(bytes([97 + i % 26]),) for i in range(n)]))
    # shortest names: the root (a question of five bytes), one-byte labels, mixed with ordinary names
    for fw in (0, 0x0100):
        pl.append(dns_query(0x5001, fw, [()]))
        pl.append(dns_query(0x5002, fw, [(), (b"a",)]))
        pl.append(dns_query(0x5003, fw, [(b"a",), ()]))
        pl.append(dns_query(0x5004, fw, [(), ()]))
        pl.append(dns_query(0x5005, fw, [(), (b"www", b"example", b"com")]))
        pl.append(dns_query(0x5006, fw, [()] * 9))
        pl.append(dns_query(0x5007, fw, [(), (b"b",), (), (b"c",), ()]))
    # longest names
    pl.append(dns_query(7, 0x0100, [(b"a" * 63, b"b" * 63, b"c" * 63, b"d" * 61)]))
    pl.append(dns_query(7, 0x0100, [(b"a" * 63, b"b" * 63, b"c" * 63, b"d" * 62)]))        # 256: too long
    # faults: other type/class, truncation at every byte, extra sections, trailing bytes, counts lying
    base = dns_query(0x4242, 0x0100, [(b"www", b"example", b"org"), (b"x",)])
    for t, c in ((16, 1), (1, 3), (28, 1), (255, 1), (1, 255), (0, 0), (2, 1), (1, 2)):
        pl.append(dns_query(0x4242, 0x0100, [(b"www", b"example", b"org"), (b"x",)], qtypes=[(1, 1), (t, c)]))
        pl.append(dns_query(0x4242, 0x0100, [(b"q",)], qtypes=[(t, c)]))
    for bit in range(16):
        pl.append(dns_query(0x4300 + bit, 0x0100, [(b"bit", b"t")], qtypes=[(1 ^ (1 << bit), 1)]))
        pl.append(dns_query(0x4400 + bit, 0x0100, [(b"bit", b"c")], qtypes=[(1, 1 ^ (1 << bit))]))
        pl.append(dns_query(0x4500 + bit, 0x0100, [(b"ok",), (b"bit", b"c")], qtypes=[(1, 1), (1, 1 ^ (1 << bit))]))
    for n in range(0, len(base)):
        pl.append(base[:n])
    pl.append(base + b"\0")
    pl.append(base + b"trailing")
    for counts in ((2, 1, 0, 0), (2, 0, 1, 0), (2, 0, 0, 1), (3, 0, 0, 0), (1, 0, 0, 0), (0, 0, 0, 0), (65535, 0, 0, 0)):
        pl.append(dns_query(0x4242, 0x0100, [(b"www", b"example", b"org"), (b"x",)], counts=counts))
    # answers present (a response-shaped query), compression pointers, NUL inside a label
    pl.append(dns_query(1, 0x0100, [(b"a",)], counts=(1, 1, 0, 0), tail=b"\xc0\x0c\0\1\0\1\0\0\0\x3c\0\4\1\2\3\4"))
    pl.append(dns_query(1, 0x0100, [b"\xc0\x0c"]))
    pl.append(dns_query(1, 0x0100, [(b"a\0b",)]))
    s = send_payloads(runner, "dns", pl, r, tier, tcp=False)
    # destination addresses
    s2 = runner.session(cfg_plain(), "dns destinations")
    fr = []
    for _ in range(80 if tier == "quick" else 500):
        p = Peer(CMAC, SMAC, rand_ip4(r), rand_ip4(r))
        fr.append(p.udp(r.randrange(65536), r.choice([53, 5353, r.randrange(65536)]), dns_query(r.randrange(65536), 0x0100, [name(r)])))
    s2.send(fr)


def gen_stun(runner, tier, seed):
    r = rng_for(seed, "C15")
    pl = []
    n = 120 if tier == "quick" else 1500
    for k in range(n):
        magic = r.random() < 0.5
        tx = (STUN_MAGIC + rb(r, 12)) if magic else rb(r, 16)
        attrs = b""
        for _ in range(r.choice([0, 0, 1, 2, 3, 4])):
            t = r.choice([0x0003, 0x0006, 0x0008, 0x0020, 0x8022, 0x8028, 0x0024, 0x7777])
            l = 4 if t == 3 else r.choice([0, 4, 8, 12, 20, 40])
            v = struct.pack(">I", r.choice([0, 2, 4, 6])) if t == 3 else rb(r, l)
            attrs += stun_attr(t, v)
        if magic and r.random() < 0.7:
            big = stun_attr(0x8022, rb(r, 256))               # length >= 0x100: outside the listed C10 class
            pos = r.choice([0, 0, len(attrs)])                # before or after the other attributes
            attrs = attrs[:pos] + big + attrs[pos:]
        pl.append(stun(0x0001, tx, attrs))
    # exact signature forms
    for _ in range(30 if tier == "quick" else 200):
        pl.append(stun(0x0001, rb(r, 16)))
        pl.append(stun(0x0001, rb(r, 16), stun_change_request(r.random() < 0.5, r.random() < 0.5)))
        pl.append(stun(0x0001, STUN_MAGIC + rb(r, 12)))
    # CHANGE-REQUEST after / between unknown attributes (magic-cookie form, message length >= 0x100)
    for cp in (True, False):
        for ci in (True, False):
            cr = stun_change_request(ci, cp)
            u1, u2 = stun_attr(0x8022, rb(r, 252)), stun_attr(0x8028, rb(r, 4))
            for attrs in (u1 + cr, u1 + u2 + cr, u2 + cr + u1, cr + u1, u1 + cr + u2):
                pl.append(stun(0x0001, STUN_MAGIC + rb(r, 12), attrs))
    key = list(pl[-20:])
    # bytes after the declared message length are not part of the message (whatever they look like)
    for _ in range(4 if tier == "quick" else 40):
        body = stun_attr(0x8022, rb(r, 252))
        for trailer in (stun_change_request(False, True), stun_change_request(True, True), b"\xde\xad\xbe\xef\0\0", b"\0", rb(r, r.randrange(1, 12)),
                        stun_attr(0x0001, b"\0\1\x11\x22\1\2\3\4")):
            key.append(stun(0x0001, STUN_MAGIC + rb(r, 12), body + trailer, length=len(body)))
            key.append(stun(0x0001, STUN_MAGIC + rb(r, 12), body + stun_change_request(False, True) + trailer, length=len(body) + 8))
    pl += key[20:]
    # other classes and methods; wrong lengths; malformed TLVs
    for t in (0x0011, 0x0101, 0x0111, 0x0002, 0x0003, 0x0102, 0x0004, 0x0112, 0x4001, 0x8001, 0x0000, 0x0201):
        pl.append(stun(t, rb(r, 16)))
        pl.append(stun(t, STUN_MAGIC + rb(r, 12)))
        pl.append(stun(t, STUN_MAGIC + rb(r, 12), stun_attr(0x0001, b"\0\1" + struct.pack(">H", 4242) + bytes([1, 2, 3, 4]))))
    for k in range(30 if tier == "quick" else 300):
        tx = STUN_MAGIC + rb(r, 12)
        good = stun_attr(0x8022, rb(r, 256))
        bad = r.choice([struct.pack(">HH", r.choice([1, 3, 0x8022]), r.choice([1, 2, 3, 5, 300, 65535])) + rb(r, r.randrange(0, 6)),
                        b"\0", b"\0\1\0", stun_attr(1, b""), stun_attr(1, b"\0\1\0\0"), stun_attr(1, b"\0\3" + rb(r, 6)), stun_attr(3, b""), stun_attr(3, b"\0\0"),
                        stun_attr(1, b"\0\2" + rb(r, 10))])
        pl.append(stun(1, tx, good + bad))
        pl.append(stun(1, tx, good + bad, length=len(good) + len(bad) + r.choice([-1, 1, 4])))
        pl.append(stun(1, tx, good + stun_change_request(False, True) + stun_change_request(False, True)))
    s = runner.session(cfg_plain(), "stun")
    fr = []
    # special forms of the observed source address: IPv4-mapped / IPv4-compatible / loopback / link-local IPv6, extreme IPv4
    for src in ("::ffff:192.0.2.33", "::192.0.2.33", "::1", "fe80::1", "2001:db8::", "ff02::1", "::ffff:0:1", "64:ff9b::c000:221"):
        for q in (stun(1, rb(r, 16)), stun(1, STUN_MAGIC + rb(r, 12)), stun(1, rb(r, 16), stun_change_request(False, True))):
            fr.append(Peer(CMAC, SMAC, src, S6).udp(r.choice([0, 1, 255, 256, 32768, 65535]), r.choice([3478, 65535]), q))
    for src in ("0.0.0.1", "255.255.255.255", "127.0.0.1", "224.0.0.1", "1.0.0.0", "128.0.0.0"):
        for q in (stun(1, rb(r, 16)), stun(1, STUN_MAGIC + rb(r, 12))):
            fr.append(Peer(CMAC, SMAC, src, S4).udp(r.choice([0, 1, 255, 256, 32768, 65535]), 3478, q))
    for q in pl:
        for p in (peer4(), peer6(), Peer(CMAC, SMAC, rand_ip4(r), S4), Peer(CMAC, SMAC, rand_ip6(r), S6)):
            if tier == "quick" and r.random() < 0.5:
                continue
            fr.append(p.udp(r.choice([0, 1, 65535, r.randrange(65536)]), r.choice([3478, 65535, 0, r.randrange(65536)]), q))
    s.send(fr)
    m = [q for q in pl if q[4:8] == STUN_MAGIC]
    send_payloads(runner, "stun over tcp", key + r.sample(m, min(len(m), 60 if tier == "quick" else 600)), r, tier, udp=False)


def gen_rpc(runner, tier, seed):
    r = rng_for(seed, "C16")

    def xid():
        # top byte outside the listed C10 shadow classes most of the time
        return (r.choice([0x12, 0x80, 0xfe, 0x01, 0x99, 0x7e]) << 24) | r.randrange(1 << 24)
    calls = []
    progs = list(range(99840, 100096)) if tier != "quick" else [99840, 99841, 99999, 100000, 100001, 100003, 100005, 100021, 100024, 100094, 100095]
    versions = [0, 1, 2, 3, 4, 5, 104316, 0xffffffff]
    procs = list(range(0, 256)) if tier != "quick" else [0, 1, 2, 3, 4, 5, 6, 7, 8, 16, 100, 128, 255]
    for prog in progs:
        for v in versions:
            for pr in (procs if prog == 100000 else [0, 3, r.choice(procs)]):
                if tier == "quick" or r.random() < 0.2 or prog == 100000:
                    calls.append((xid(), prog, v, pr, r.choice([b"", b"", b"\0" * 4, rb(r, 8), rb(r, 400)]), b""))
    # auth lengths that are not multiples of four, non-empty verifiers (unspecified for the answer, must not crash)
    for _ in range(10 if tier == "quick" else 200):
        calls.append((xid(), 100000, r.choice([2, 3, 4]), r.choice([0, 3, 4]), rb(r, r.choice([1, 2, 3, 5, 7])), rb(r, r.choice([0, 4, 7]))))
    s = runner.session(cfg_plain(), "rpc udp")
    fr = []
    for (x, prog, v, pr, cred, verf) in calls:
        args = struct.pack(">IIII", 100003, 3, 6, 0) if pr == 3 else b""
        p = r.choice([peer4(), peer6(), Peer(CMAC, SMAC, rand_ip4(r), rand_ip4(r)), Peer(CMAC, SMAC, rand_ip6(r), rand_ip6(r))])
        fr.append(p.udp(r.randrange(65536), r.choice([111, 0, 65535, r.randrange(65536)]), rpc_call(x, prog, v, pr, cred, verf, args)))
    s.send(fr)
    s = runner.session(cfg_plain(level=4), "rpc udp (verbosity 4)")
    s.send(fr[::5])
    s = runner.session(cfg_plain(), "rpc tcp")
    flows = []
    for i, (x, prog, v, pr, cred, verf) in enumerate(calls if tier != "quick" else calls[::3]):
        args = struct.pack(">IIII", 100003, 3, 6, 0) if pr == 3 else b""
        p = r.choice([peer4(), peer6(), Peer(CMAC, SMAC, rand_ip6(r), rand_ip6(r)), Peer(CMAC, SMAC, rand_ip4(r), rand_ip4(r))])
        flows.append((p, 1024 + (i % 60000), r.choice([111, 0, 65535, r.randrange(65536)]), r.randrange(1 << 32), [rpc_call(x, prog, v, pr, cred, verf, args, tcp=True)]))
    for ch in chunks(flows, 500):
        s.reset()
        tcp_batch(s, ch)
    # record marks: last-fragment bit clear, every value of the first byte, lengths that lie
    s = runner.session(cfg_plain(), "rpc record marks")
    flows = []
    for hi in range(256):
        for (v, pr) in ((2, 3), (4, 0)) if tier == "quick" else ((2, 3), (4, 0), (3, 4), (9, 1), (2, 77)):
            m = rpc_call(xid(), 100000, v, pr, args=struct.pack(">IIII", 100003, 3, 6, 0) if pr == 3 else b"")
            mark = struct.pack(">I", (hi << 24) | (len(m) if hi in (0, 0x80) or r.random() < 0.5 else r.randrange(1 << 24)))
            flows.append((r.choice([peer4(), peer6()]), 1024 + len(flows), r.choice([111, 2049, r.randrange(65536)]), r.randrange(1 << 32), [mark + m]))
    for ch in chunks(flows, 500):
        s.reset()
        tcp_batch(s, ch)
    # several calls one after the other on one connection (each its own record), reply messages in between
    s = runner.session(cfg_plain(), "rpc successive records on one flow")
    flows = []
    for i in range(20 if tier == "quick" else 300):
        segs = []
        for k in range(r.choice([2, 3, 3, 4, 5])):
            v, pr = r.choice([(2, 3), (4, 0), (3, 4), (2, 4), (9, 1), (2, 77), (4, 3), (2, 0x103), (3, 0x104), (4, 0x10003), (2, 0xffffff04), (2, 0x100)])
            prog = r.choice([100000, 100000, 100003])
            q = rpc_call(xid(), prog, v, pr, args=struct.pack(">IIII", 100003, 3, 6, 0) if pr & 0xff == 3 else (rb(r, 1216) if r.random() < 0.15 else b""),
                         cred=r.choice([b"", b"", rb(r, 20), rb(r, 8)]), cred_flavor=r.choice([0, 1]), tcp=True)
            if k and r.random() < 0.2:
                q = rpc_call(xid(), mtype=1, tcp=True)                      # a reply message where a call is expected
            if r.random() < 0.3:
                c = r.randrange(1, len(q))
                segs += [q[:c], q[c:]]
            else:
                segs.append(q)
        flows.append((r.choice([peer4(), peer6()]), 23000 + i, r.choice([111, 2049, r.randrange(65536)]), r.randrange(1 << 32), segs))
    tcp_batch(s, flows)
    # framing and transport crossed: record-marked calls in datagrams, unframed calls as first TCP segment
    s = runner.session(cfg_plain(), "rpc framing crossed with transport")
    fr, flows = [], []
    for v in (2, 3, 4, 9):
        for pr in (0, 3, 4, 7):
            fr.append(peer4().udp(21000 + len(fr), 111, rpc_call(xid(), 100000, v, pr, tcp=True)))
            fr.append(peer6().udp(21000 + len(fr), 111, rpc_call(xid(), 100000, v, pr, tcp=True)))
            flows.append((r.choice([peer4(), peer6()]), 22000 + len(flows), 111, 3, [rpc_call(xid(), 100000, v, pr)]))
    s.send(fr)
    tcp_batch(s, flows)
    # the longest replies: DUMP (v3/v4) to the longest address texts, over TCP and UDP
    s = runner.session(cfg_plain(), "rpc long replies")
    flows, fr = [], []
    for i, dst in enumerate(["2001:db8:1234:5678:9abc:def0:1234:5678", "ffff:ffff:ffff:ffff:ffff:ffff:ffff:fffe", "2001:db8::1", "255.255.255.254", "1.1.1.1"]):
        src = C6 if ":" in dst else C4
        for v in (2, 3, 4):
            for port in (111, 65535):
                flows.append((Peer(CMAC, SMAC, src, dst), 20000 + len(flows), port, 9, [rpc_call(xid(), 100000, v, 4, tcp=True)]))
                fr.append(Peer(CMAC, SMAC, src, dst).udp(20000 + len(fr), port, rpc_call(xid(), 100000, v, 4)))
                fr.append(Peer(CMAC, SMAC, src, dst).udp(20000 + len(fr), port, rpc_call(xid(), 100000, v, 3)))
    s.send(fr)
    tcp_batch(s, flows)
    # replies and other message types are not calls
    pl = [rpc_call(xid(), mtype=1), rpc_call(xid(), mtype=2), rpc_call(xid(), rpcvers=3), rpc_call(xid())[:39], rpc_call(xid())[:24]]
    send_payloads(runner, "rpc non-calls", pl, r, tier)


def gen_smb(runner, tier, seed):
    r = rng_for(seed, "C17")
    pl = []
    dialect_pool = [b"PC NETWORK PROGRAM 1.0", b"LANMAN1.0", b"Windows for Workgroups 3.1a", b"LM1.2X002", b"LANMAN2.1", b"NT LM 0.12",
                    b"SMB 2.002", b"SMB 2.???", b"FOO", b"x"]
    n = 40 if tier == "quick" else 4000
    for k in range(n):
        ds = r.sample(dialect_pool, r.randrange(1, 9))
        if r.random() < 0.3:
            ds.insert(r.randrange(len(ds) + 1), r.choice(ds))   # duplicates, anywhere in the list
        hdr = dict(pid_high=r.randrange(65536), tid=r.randrange(65536), pid_low=r.randrange(65536), uid=r.randrange(65536), mid=r.randrange(65536),
                   flags=r.choice([0x18, 0x08, 0x00, 0x18, r.choice([0x80, 0x88, 0x90, 0x98, 0x81, 0xff, 0xc0])]))
        pl.append(smb1_negotiate(ds, **hdr))
        pl.append(smb1_session_setup(blob=rb(r, r.choice([1, 2, 40, 74, 255, 300])), **hdr))
        # the strings after the security blob are optional: none at all, one byte, an odd number of bytes
        pl.append(smb1_session_setup(blob=rb(r, r.choice([1, 2, 40, 74, 255, 300])), tail=r.choice([b"", b"", b"\0", b"W\0\0", rb(r, 7)]), **hdr))
        d2 = r.sample([0x0202, 0x0210, 0x0300, 0x0302, 0x0311, 0x02ff, 0x0310, 0x0000, 0x1234, 0xffff, 0x0201], r.randrange(1, 8))
        if r.random() < 0.15:
            d2.append(d2[0])
        h2 = dict(message_id=r.randrange(1 << 62), async_id=r.randrange(1 << 62), session_id=r.randrange(1 << 62), flags=r.choice([0, 0, 0, 8, 0x10, r.choice([1, 3, 9, 0x11, 0x30000001, 0xffffffff])]))
        pl.append(smb2_negotiate(d2, **h2))
        pl.append(smb2_session_setup(blob=rb(r, r.choice([1, 2, 40, 74, 255, 300])), **h2))
        pl.append(smb2_session_setup(blob=rb(r, 40), prev=r.randrange(1, 1 << 62), message_id=h2["message_id"], session_id=r.choice([0, 0, h2["session_id"]])))
    pl += [smb2_negotiate([0x1234, 0x0000]), smb2_negotiate([0xffff]), smb2_negotiate([0x0202], count=0), smb2_negotiate([0x0202, 0x0210], count=1),
           smb2_negotiate([0x0202], count=2), smb1_negotiate([b"NT LM 0.12"], byte_count=3), smb1_negotiate([b"NT LM 0.12"], byte_count=200),
           smb1_negotiate([]), smb1_session_setup(blob=b""), smb2_session_setup(blob=b"")]
    for cmd in (range(256) if tier != "quick" else list(range(0, 12)) + [0x70, 0x71, 0x72, 0x73, 0x74, 0x75, 0xa2, 0xff]):
        pl.append(nbt(smb1_header(cmd) + b"\0\0\0"))
        pl.append(nbt(smb2_header(cmd) + struct.pack("<HH", 4, 0)))
    # truncations of the four clean requests
    for base in (smb1_negotiate([b"LANMAN1.0", b"NT LM 0.12"]), smb1_session_setup(), smb2_negotiate(), smb2_session_setup()):
        for n_ in (range(0, len(base)) if tier != "quick" else range(0, len(base), 3)):
            pl.append(base[:n_])
    send_payloads(runner, "smb", pl, r, tier)
    # the usual conversation: negotiate, then session setup(s), each NetBIOS message in its own segment
    s = runner.session(cfg_plain(), "smb conversations on one flow")
    flows = []
    for i in range(24 if tier == "quick" else 3000):
        fam = i % 2
        hdr = dict(mid=r.randrange(65536), uid=r.randrange(65536), tid=r.randrange(65536)) if fam == 0 else \
            dict(message_id=r.randrange(1 << 62), session_id=r.randrange(1 << 62))
        if fam == 0:
            msgs = [smb1_negotiate(r.choice([[b"NT LM 0.12"], [b"LANMAN1.0", b"NT LM 0.12"], [b"PC NETWORK PROGRAM 1.0", b"LANMAN1.0", b"NT LM 0.12"]]), **hdr),
                    smb1_session_setup(blob=rb(r, r.choice([2, 40, 74])), **hdr)]
            extra = [smb1_session_setup(blob=rb(r, 40), **hdr), smb1_negotiate([b"NT LM 0.12"], flags=0x98), nbt(smb1_header(0x75) + b"\0\0\0"),
                     smb1_negotiate([b"NT LM 0.12"], **hdr)]
        else:
            msgs = [smb2_negotiate(r.choice([[0x0202], [0x0202, 0x0210], [0x0311, 0x0302, 0x0210]]), **hdr), smb2_session_setup(blob=rb(r, r.choice([2, 40, 74])), **hdr)]
            extra = [smb2_session_setup(blob=rb(r, 40), **hdr), smb2_negotiate([0x0202], flags=1), nbt(smb2_header(5) + struct.pack("<HH", 4, 0)),
                     smb2_negotiate([0x0210], **hdr)]
        for _ in range(r.choice([0, 1, 2])):
            msgs.append(r.choice(extra))
        if r.random() < 0.2:
            msgs.insert(1, b"")
        flows.append((r.choice([peer4(), peer6()]), 24000 + i, r.choice([445, 139, r.randrange(65536)]), r.randrange(1 << 32), msgs))
    tcp_batch(s, flows)


def gen_ssh_ghost(runner, tier, seed):
    r = rng_for(seed, "C18")
    pl = []
    alpha = [c for c in range(33, 127)] + [13, 13, 0x80, 0xff, 0, 9]
    n = 300 if tier == "quick" else 3000
    for k in range(n):
        ver = r.choice([b"2.0", b"1.99", b"2.0", b"2.0.1", b"2.00", b"1.5", b"2.", b"2.0a", b"", b"2..0"])
        sw = rb(r, r.randrange(0, 12), alpha)
        cm = None if r.random() < 0.5 else rb(r, r.randrange(0, 12), alpha + [32])
        term = r.choice([b"\r\n", b"\r\n", b"\r\n", b"\n", b"\r", b"", b"\r\r\n", b"\n\r"])
        tail = r.choice([b"", b"", b"\0\0\0\x14", rb(r, 7)])
        pl.append(ssh_ident(ver, sw, cm, term, tail))
    for b in range(256):
        if b not in (0, 10, 13, 32):
            pl.append(b"SSH-2.0-s" + bytes([b]) + b"w\r\n")
        if b not in (0, 10, 13):
            pl.append(b"SSH-1.99-sw c" + bytes([b]) + b"m\r\n")
    for v in (b"2.0", b"1.99", b"2.00", b"2.0.1", b"2.05", b"1.99.2", b"1.990", b"2.0.0.0.0", b"2.09999"):
        pl.append(b"SSH-" + v + b"-soft\r\n")
        pl.append(b"SSH-" + v + b"-soft comment here\r\n")
    pl += [b"SSH-2.0-x\r\n", b"SSH-1.99-x\r\n", b"SSH-2.0-x", b"SSH-2.0-\r\n", b"SSH-2.0\r\n", b"SSH-2.0- \r\n", b"SSH-2.0-a b c\r\n", b"SSH-2.0-a\rb\r\n",
           b"SSH-2.0-a\r\r\n", b"SSH-1.5-x\r\n", b"ssh-2.0-x\r\n", b"SSH-2.0-x\n", b"SSH-2.0-" + b"y" * 300 + b"\r\n", b"SSH-2.0-x\r", b"SSH-2.0-x c\r"]
    for t in range(0, 100 if tier == "quick" else 301):
        pl.append(ghost(rb(r, t)))
    pl += [b"Gh0st", b"Gh0s", b"gh0st", b"Gh0st\0\0\0\0"]
    send_payloads(runner, "ssh and gh0st", pl, r, tier)


# ------------------------------------------------------------------ C12
def reflect(frame):
    """Re-address a frame emitted by the responder back to it: MACs, IP addresses and ports
    swapped, checksums recomputed.  Returns None for frames it cannot parse."""
    try:
        et = struct.unpack(">H", frame[12:14])[0]
        smac_, cmac_ = frame[6:12], frame[0:6]            # reply: src = responder, dst = client
        if et == 0x0806:
            a = frame[14:]
            body = a[:8] + a[18:24] + a[24:28] + a[8:14] + a[14:18] + a[28:]
            return eth(smac_, cmac_, et, body)
        if et == 0x0800:
            src, dst, proto, l4 = frame[26:30], frame[30:34], frame[23], frame[34:]
        elif et == 0x86DD:
            src, dst, proto, l4 = frame[22:38], frame[38:54], frame[20], frame[54:]
        else:
            return None
        nsrc, ndst = dst, src                              # now from the client to the responder
        if proto == 17:
            sp, dp = struct.unpack(">HH", l4[:4])
            seg = udp(nsrc, ndst, dp, sp, l4[8:])
        elif proto == 6:
            sp, dp, seq, ack, of = struct.unpack(">HHIIH", l4[:14])
            seg = tcp(nsrc, ndst, dp, sp, seq, ack, of & 0x1ff, l4[20:])
        elif proto == 1:
            seg = icmp(l4[0], l4[1], l4[4:])
        elif proto == 58:
            seg = icmp6(nsrc, ndst, l4[0], l4[1], l4[4:])
        else:
            return None
        if et == 0x0800:
            return eth(smac_, cmac_, et, ipv4(nsrc, ndst, proto, seg))
        return eth(smac_, cmac_, et, ipv6(nsrc, ndst, proto, seg, hlim=255 if proto == 58 else 64))
    except Exception:
        return None


def gen_replies(runner, tier, seed):
    r = rng_for(seed, "C12")
    cm = mac(CMAC)
    p4, p6 = peer4(), peer6()
    for cfg in (cfg_plain(), cfg_self()):
        s = runner.session(cfg, "reply-typed messages self=%s" % bool(cfg.self_ips))
        fr = []
        # layer 2-4 replies
        for op in (2, 4, 9):
            fr.append(eth(SMAC, cm, 0x0806, arp(op, cm, C4, SMAC, S4)))
            fr.append(eth(b"\xff" * 6, cm, 0x0806, arp(op, cm, S4, b"\xff" * 6, S4)))      # gratuitous
        for k in range(6):
            fr.append(p4.echo(r.randrange(65536), k, rb(r, k * 3), type_=0))
            fr.append(p6.echo(r.randrange(65536), k, rb(r, k * 3), type_=129))
        na = b"\x60\0\0\0" + ip(C6) + b"\x02\x01" + cm
        fr.append(p6.l3(58, icmp6(p6.cip, p6.sip, 136, 0, na), hlim=255))
        fr.append(eth(SMAC, cm, 0x86DD, ipv6(C6, "ff02::1", 58, icmp6(C6, "ff02::1", 136, 0, b"\x20\0\0\0" + ip(C6) + b"\x02\x01" + cm), hlim=255)))
        for fl in range(512):
            # every flag combination that carries RST, or both SYN and ACK (PSH|ACK data segments aside)
            if (fl & F_RST or (fl & F_SYN and fl & F_ACK)) and not (fl & F_PSH and fl & F_ACK):
                for p in (p4, p6):
                    if tier != "quick" or fl < 64 or r.random() < 0.3:
                        fr.append(p.tcp(r.randrange(65536), 80, r.randrange(1 << 32), r.randrange(1 << 32), fl, r.choice([b"", b"x"])))
        # application replies, generated
        app = []
        for k in range(15 if tier == "quick" else 80):
            app.append(dns_query(r.randrange(65536), 0x8180 | r.choice([0, 0x0400, 0x0003]), [(rb(r, 5, list(range(97, 123))), b"com")]))
            app.append(dns_query(r.randrange(65536), 0x8180, [(b"a",)], counts=(1, 1, 0, 0), tail=b"\xc0\x0c\0\1\0\1\0\0\0\x3c\0\4\1\2\3\4"))
            for t in (0x0011, 0x0101, 0x0111):
                app.append(stun(t, rb(r, 16)))
                app.append(stun(t, STUN_MAGIC + rb(r, 12), stun_attr(1, b"\0\1" + struct.pack(">H", r.randrange(65536)) + rb(r, 4))))
            app.append(smb1_negotiate([b"NT LM 0.12"], flags=r.choice([0x98, 0x80, 0x88, 0x90, 0x81, 0xff]), mid=r.randrange(65536)))
            app.append(smb1_session_setup(flags=r.choice([0x80, 0x98, 0x88, 0xc0])))
            app.append(smb2_negotiate([0x0202], flags=r.choice([1, 3, 9, 0x11, 0x30000001, 0xffffffff]), message_id=r.randrange(1 << 40)))
            app.append(smb2_session_setup(flags=r.choice([1, 3, 9, 0xffffffff])))
            app.append(rpc_call(r.randrange(1 << 32), mtype=1))
            app.append(struct.pack(">II", r.randrange(1 << 32), 1) + b"\0" * 16)          # accepted reply, success
        for q in app:
            fr.append(r.choice([p4, p6]).udp(r.randrange(65536), r.randrange(65536), q))
        s.send(fr)
        flows = [(r.choice([p4, p6]), 9000 + i, 445, r.randrange(1 << 32), [q]) for i, q in enumerate(app)]
        tcp_batch(s, flows)
        # the responder's own replies, reflected, chains followed.  A chain counts the replies
        # elicited since a reply-typed message (the own reply of a protocol that marks replies)
        # was bounced back; SSH / Gh0st / HTTP answers are not protocol-marked replies.
        seeds = [(f, True) for _, f in base_requests(SMAC, C4, S4, C6, S6)]
        for q in app_requests(r):
            marked = not (q[:4] in (b"SSH-", b"Gh0s") or q[:3] in (b"GET", b"PUT", b"POS", b"HEA", b"DEL", b"CON", b"OPT", b"TRA", b"PAT"))
            seeds.append((p4.udp(r.randrange(1024, 65536), r.randrange(1024, 65536), q), marked))
            seeds.append((p6.udp(r.randrange(1024, 65536), r.randrange(1024, 65536), q), marked))
        seeds.append((p4.tcp(1, 2, 3, 4, F_FIN | F_ACK), False))
        obs = s.send([f for f, _ in seeds])
        chains = []
        for (f, marked), o in zip(seeds, obs):
            if o["out"] == "reply":
                g = reflect(bytes(o["rep"]))
                if g is not None:
                    chains.append((g, 0, marked))
        depth = 0
        while chains and depth < 6:
            obs = s.send([f for f, _, _ in chains], chain=[c for _, c, _ in chains])
            nxt = []
            for (f, c, marked), o in zip(chains, obs):
                if o["out"] == "reply":
                    g = reflect(bytes(o["rep"]))
                    if g is not None:
                        nxt.append((g, c + 1 if marked else 0, marked))
            chains = nxt
            depth += 1
        # reply-typed and other messages as *later* segments of flows already identified as STUN / SMB / SSH / RPC
        firsts = [stun(1, STUN_MAGIC + rb(r, 12), stun_attr(0x8022, rb(r, 252))), smb1_negotiate([b"NT LM 0.12"]), smb2_negotiate([0x0202, 0x0210]),
                  ssh_ident(), rpc_call(0x61000000 | r.randrange(1 << 24), vers=2, proc=0, tcp=True)]
        seconds = [stun(0x0011, STUN_MAGIC + rb(r, 12)), stun(0x0101, STUN_MAGIC + rb(r, 12), stun_attr(1, b"\0\1\x12\x34\1\2\3\4")), stun(0x0111, rb(r, 16)),
                   stun(0x0002, STUN_MAGIC + rb(r, 12)), smb1_negotiate([b"NT LM 0.12"], flags=0x98), smb1_session_setup(flags=0x80), smb2_negotiate([0x0202], flags=1),
                   smb2_session_setup(flags=3), nbt(smb1_header(0x75) + b"\0\0\0"), nbt(smb2_header(5) + struct.pack("<HH", 4, 0)),
                   rpc_call(7, mtype=1, tcp=True), b"SSH-2.0-x\n", dns_query(flags=0x8180)]
        fl2, plan2 = [], []
        for fi, first in enumerate(firsts):
            for sec in seconds:
                fl2.append(Flow(r.choice([p4, p6]), 14000 + len(fl2), r.choice([80, 445, 3478]), r.randrange(1 << 32)))
                plan2.append((first, sec))
        live3 = open_flows(s, fl2)
        s.send([f.data(pl[0]) for f, pl in zip(fl2, plan2) if f.ck is not None])
        s.send([f.data(pl[1]) for f, pl in zip(fl2, plan2) if f.ck is not None])
        # application replies re-sent on validated TCP flows
        flows = []
        for i, q in enumerate(app_requests(r, tcpmode=True)):
            flows.append(Flow(r.choice([p4, p6]), 12000 + i, 80, r.randrange(1 << 32)))
        live = open_flows(s, flows)
        reqs = app_requests(r, tcpmode=True)
        obs = s.send([f.data(q) for f, q in zip(live, reqs)])
        back = []
        for f, o in zip(live, obs):
            if o["out"] == "reply":
                t = tcp_fields(bytes(o["rep"]))
                if t["payload"]:
                    f2 = Flow(f.peer, f.sport + 1000, f.dport, r.randrange(1 << 32))
                    back.append((f2, bytes(t["payload"])))
        live2 = open_flows(s, [f for f, _ in back])
        s.send([f.data(q) for f, q in back if f.ck is not None], chain=1)


# ------------------------------------------------------------------ C19
def gen_ports(runner, tier, seed):
    r = rng_for(seed, "C19")
    payloads = []
    for _ in range(4 if tier == "quick" else 12):
        payloads += app_requests(r) + app_requests(r, tcpmode=True)
    payloads += [b"GET / HTTP/1.1\r\n", b"SSH-2.0-x\n", b"nothing to see", dns_query(qtypes=[(16, 1)]), smb2_negotiate([0x1234]),
                 rpc_call(vers=9), rpc_call(proc=0), rpc_call(prog=100003), rpc_call(vers=3, proc=4), rpc_call(vers=2, proc=4),
                 stun(0x0101, b"\5" * 16), dns_query(flags=0x8180)]
    ports = [0, 1, 22, 53, 80, 111, 445, 3478, 65535]
    s = runner.session(cfg_plain(), "ports and ip version, udp")
    fr, grp = [], []
    k = 6 if tier == "quick" else 12
    for gi, q in enumerate(payloads):
        ctxs = [(r.choice(ports + [r.randrange(65536)]), r.choice(ports + [r.randrange(65536)]), v6) for v6 in (False, True) for _ in range(k // 2)]
        for (sp, dp, v6) in ctxs:
            p = (Peer(CMAC, SMAC, rand_ip6(r), rand_ip6(r)) if r.random() < 0.5 else peer6()) if v6 else \
                (Peer(CMAC, SMAC, rand_ip4(r), rand_ip4(r)) if r.random() < 0.5 else peer4())
            fr.append(p.udp(sp, dp, q))
            grp.append(gi + 1)
    s.send(fr, grp=grp)
    s = runner.session(cfg_plain(), "ports and ip version, tcp")
    flows, grp = [], []
    for gi, q in enumerate(payloads):
        if q[:2] == b"\x12\x34" or (len(q) > 11 and q[4:8] == b"\0\0\0\0" and q[8:11] == b"\0\0\0"):
            continue
        for j in range(k):
            v6 = j % 2 == 1
            p = peer6() if v6 else peer4()
            flows.append(Flow(p, r.choice([1, 1023, 65535, r.randrange(1024, 65535)]) if j else 40000 + gi, r.choice(ports + [r.randrange(65536)]), r.randrange(1 << 32)))
            grp.append((gi + 1, q))
    # distinct 4-tuples
    seen, fl2, g2 = set(), [], []
    for f, g in zip(flows, grp):
        key = (f.peer.cip, f.sport, f.dport)
        if key in seen:
            continue
        seen.add(key)
        fl2.append(f)
        g2.append(g)
    live = open_flows(s, fl2)
    s.send([f.data(g[1]) for f, g in zip(fl2, g2) if f.ck is not None], grp=[g[0] + 100000 for f, g in zip(fl2, g2) if f.ck is not None])


# ------------------------------------------------------------------ C10
def c10_payloads(r, tier):
    """Clean requests of every signature with every wildcard position swept over byte values
    (all 256 in the thorough tier, the other signatures' literals and a sample otherwise)."""
    literals = sorted(set(b"GETPUOSHADLCNIR /-2.0199Gh0st\x00\x01\x21\x12\xa4\x42\x08\x03\x04\x86\xff\xfeSMB"))
    def sweep():
        if tier != "quick":
            return list(range(256))
        return sorted(set(literals + [r.randrange(256) for _ in range(6)] + [0x7f, 0x80, 0x0a]))
    out = []
    # RPC over UDP: xid bytes (0..3), program low byte (15), version (16..19), procedure low byte (23)
    for pos in range(4):
        for b in sweep():
            x = bytearray(struct.pack(">I", 0x12345678)); x[pos] = b
            out.append(("RPC-UDP", rpc_call(struct.unpack(">I", bytes(x))[0], vers=r.choice([2, 3, 4]), proc=r.choice([0, 3, 4]))))
            out.append(("RPC-TCP", rpc_call(struct.unpack(">I", bytes(x))[0], vers=r.choice([2, 3, 4]), proc=r.choice([0, 3, 4]), tcp=True)))
    for b in sweep():
        out.append(("RPC-UDP", rpc_call(0x12000000 | b, prog=99840 + b, vers=2, proc=3)))
        out.append(("RPC-UDP", rpc_call(0x12000000 | b, vers=(b << 24) | 3, proc=0)))
        out.append(("RPC-UDP", rpc_call(0x12000000 | b, vers=2 + (b << 8), proc=0)))
        out.append(("RPC-UDP", rpc_call(0x12000000 | b, vers=b, proc=0)))
        out.append(("RPC-UDP", rpc_call(0x12000000 | b, vers=2, proc=b)))
        out.append(("RPC-TCP", rpc_call(0x12000000 | b, prog=99840 + b, vers=2, proc=3, tcp=True)))
        out.append(("RPC-TCP", rpc_call(0x12000000 | b, vers=b, proc=0, tcp=True)))
        out.append(("RPC-TCP", rpc_call(0x12000000 | b, vers=2, proc=b, tcp=True)))
        out.append(("RPC-TCP", rpc_call(0x12000000 | b, vers=2, proc=0, cred=b"c" * (4 * (b % 64)), tcp=True)))    # record-mark length byte
    # STUN: transaction id bytes, message length bytes, change-request flag byte
    for pos in range(16):
        for b in sweep():
            tx = bytearray(b"\x55" * 16); tx[pos] = b
            out.append(("STUN-empty", stun(1, bytes(tx))))
            if pos % 4 == 0 or tier != "quick":
                out.append(("STUN-change-request", stun(1, bytes(tx), stun_change_request(False, b % 2 == 0))))
    for b in sweep():
        out.append(("STUN-change-request", stun(1, b"\x66" * 16, stun_attr(3, b"\0\0\0" + bytes([b])))))
    for n in (range(0, 1300, 4) if tier != "quick" else list(range(0, 80, 4)) + [252, 256, 260, 512, 1024]):
        out.append(("STUN-magic", stun(1, STUN_MAGIC + rb(r, 12), stun_attr(0x8022, b"v" * n) if n else b"")))
    # SMB: NetBIOS length bytes
    for n in (range(1, 400) if tier != "quick" else [1, 2, 5, 40, 212, 213, 214, 255, 256, 300]):
        out.append(("SMB1", smb1_session_setup(blob=b"b" * n)))
        out.append(("SMB2", smb2_session_setup(blob=b"b" * n)))
    for k in range(1, 9):
        out.append(("SMB1", smb1_negotiate([b"D%d" % i for i in range(k)] + [b"NT LM 0.12"])))
        out.append(("SMB2", smb2_negotiate([0x0202, 0x0210, 0x0300, 0x0302, 0x0311, 0x02ff, 0x0310, 0x0201][:k])))
    # datagrams that complete an end-anchored signature and are also well-formed DNS messages
    out.append(("STUN-empty", stun(1, b"\0" * 16)))                                                   # DNS: no questions
    out.append(("STUN-empty", stun(1, b"\0\1\0\0\0\0\0\0\2ab\0\0\1\0\1")))                         # DNS: ab IN A, 4 bytes header overlap
    out.append(("STUN-empty", b"\0\1\0\0" + b"\0\1\0\0\0\0\0\0" + b"\2ab\0\0\1\0\1"))                 # id=1 flags=0 qd=1: "ab" IN A
    out.append(("STUN-change-request", b"\0\1\0\x08" + b"\0\0\0\0\0\0\0\0" + b"\0" * 8 + b"\0\3\0\4\0\0\0\2"))   # DNS: zero counts, trailing bytes
    out.append(("STUN-change-request", b"\0\1\0\x08" + b"\0\1\0\0\0\0\0\0" + b"\1a\0\0\1\0\1\0" + b"\0\3\0\4\0\0\0\2"))
    # literal signatures
    for v in HTTP_VERBS:
        out.append(("HTTP", http_request(v, b"/" + rb(r, 3, list(range(97, 123))))))
    out += [("SSH", b"SSH-2.0-a\r\n"), ("SSH", b"SSH-1.99-a\r\n"), ("GHOST", b"Gh0st" + rb(r, 9))]
    return out


def c10_candidates(mismatches):
    """Payloads that put a matcher-level disagreement to the test on the real stack: the
    witness alone, and the witness overlaid on / followed by a valid request of every protocol."""
    templates = [http_request(), b" HTTP/1.1\r\n\r\n", b"/ HTTP/1.1\r\n\r\n", ssh_ident(), b"-x\r\n", b"x\r\n", b"\r\n", ghost(b"tail"),
                 stun(1, b"\x31" * 16), stun(1, b"\x32" * 16, stun_change_request(False, True)),
                 stun(1, STUN_MAGIC + b"\x33" * 12, stun_attr(0x8022, b"w" * 256)), stun(1, STUN_MAGIC + b"\x33" * 12),
                 rpc_call(), rpc_call(tcp=True), rpc_call(vers=4, proc=4), rpc_call(vers=4, proc=4, tcp=True),
                 smb1_negotiate(), smb1_session_setup(), smb2_negotiate(), smb2_session_setup(), dns_query()]
    out = []
    for m in mismatches:
        w = m["witness"]
        out.append(w)
        for t in templates:
            out.append(w + t[len(w):])
            out.append(w + t)
    # de-duplicate, keep order
    seen, res = set(), []
    for p in out:
        if p not in seen:
            seen.add(p)
            res.append(p)
    return res


def gen_identification(runner, tier, seed, mismatches):
    r = rng_for(seed, "C10")
    pls = [p for _, p in c10_payloads(r, tier)]
    send_payloads(runner, "signature wildcard sweeps", pls, r, tier)
    cand = c10_candidates(mismatches)
    if tier == "quick" and len(cand) > 1500:
        cand = r.sample(cand, 1500)
    send_payloads(runner, "matcher/reference disagreements put to the test", cand, r, tier)
    # the decision does not depend on how the leading bytes are cut (stream protocols)
    s = runner.session(cfg_plain(), "leading bytes cut at every position")
    flows, plans = [], []
    reqs = [http_request("OPTIONS", b"/"), http_request("GET", b"/"), rpc_call(0x12345678, vers=2, proc=3, tcp=True), rpc_call(0x80000001, vers=4, proc=0, tcp=True),
            ssh_ident(), ssh_ident(version=b"1.99"), ghost(b"abc"), smb1_negotiate(), smb2_negotiate(),
            stun(txid=STUN_MAGIC + rb(r, 12), attrs=stun_attr(0x8022, b"s" * 256))]
    port = 5000
    for q in reqs:
        for c in range(0, 30):
            port += 1
            flows.append(Flow(r.choice([peer4(), peer6()]), port, r.randrange(65536), r.randrange(1 << 32)))
            plans.append(split_at(q, [c]) if 0 < c < len(q) else [q])
            # the same cut with an empty data segment in the middle (or in front)
            port += 1
            flows.append(Flow(r.choice([peer4(), peer6()]), port, r.randrange(65536), r.randrange(1 << 32)))
            plans.append([q[:c], b"", q[c:]] if 0 < c < len(q) else [b"", q])
    live = open_flows(s, flows)
    frames = []
    for f, pl in zip(flows, plans):
        if f.ck is not None:
            for seg in pl:
                frames.append(f.data(seg))
    s.send(frames)


# ------------------------------------------------------------------ C01
def frame_offsets(f):
    """Syntactic layer offsets of a frame (for structured mutation only)."""
    offs = {"eth": 0}
    if len(f) < 14:
        return offs
    et = struct.unpack(">H", f[12:14])[0]
    if et == 0x0806:
        offs["arp"] = 14
    elif et == 0x0800 and len(f) >= 34:
        offs["ip"] = 14
        l4 = 14 + max((f[14] & 15) * 4, 20)
        offs["l4"] = l4
        proto = f[23]
        offs["proto"] = proto
        offs["app"] = l4 + (8 if proto == 17 else 20 if proto == 6 else 4)
    elif et == 0x86DD and len(f) >= 54:
        offs["ip"] = 14
        offs["l4"] = 54
        proto = f[20]
        offs["proto"] = proto
        offs["app"] = 54 + (8 if proto == 17 else 20 if proto == 6 else 4)
    return offs


def header_variants(f, r, tier):
    """Every 16-bit word (and byte) of the headers below the application payload set to boundary values."""
    out = []
    offs = frame_offsets(f)
    end = min(len(f), offs.get("app", len(f)))
    for o in range(12, end - 1):
        w = struct.unpack(">H", f[o:o + 2])[0]
        vs = [0, 1, (w + 1) & 0xffff, 0xffff, 0x8000, w ^ 0x0100]
        if tier == "quick":
            vs = r.sample(vs, 3)
        for v in vs:
            if v != w:
                out.append(f[:o] + struct.pack(">H", v) + f[o + 2:])
    return out


def mutations(f, r, tier):
    """Spec-structured mutations of one frame: truncation to every length, every 16-bit
    word of the headers and of the first application bytes set to boundary values, every
    byte set to 0 / 0xff / flipped top bit, type bytes swept, random splices."""
    out = []
    n = len(f)
    step = 1 if n <= 160 or tier != "quick" else max(1, n // 80)
    for k in range(0, n, step):
        out.append(f[:k])
    offs = frame_offsets(f)
    app = offs.get("app", 14)
    limit = min(n, app + (96 if tier == "quick" else 400))
    for o in range(12, limit - 1):
        if tier == "quick" and o > app + 40 and o % 3:
            continue
        w = struct.unpack(">H", f[o:o + 2])[0]
        for v in {0, 1, (w - 1) & 0xffff, (w + 1) & 0xffff, 0xffff, 0x8000, w ^ 0xff00}:
            if v != w:
                out.append(f[:o] + struct.pack(">H", v) + f[o + 2:])
    for o in range(12, limit):
        for v in (0, 0xff, f[o] ^ 0x80, (f[o] + 1) & 255, 32):
            if v != f[o]:
                out.append(f[:o] + bytes([v]) + f[o + 1:])
    # sweep the type / flavour / family bytes at the start of each layer
    for key in ("l4", "app"):
        o = offs.get(key)
        if o is not None and o < n:
            for v in range(256):
                out.append(f[:o] + bytes([v]) + f[o + 1:])
            if o + 1 < n:
                for v in range(0, 256, 1 if tier != "quick" else 5):
                    out.append(f[:o + 1] + bytes([v]) + f[o + 2:])
    for _ in range(20 if tier == "quick" else 200):
        b = bytearray(f)
        for _ in range(r.randrange(1, 6)):
            if b:
                b[r.randrange(len(b))] = r.randrange(256)
        out.append(bytes(b))
    # extension: the frame followed by junk, up to the capture buffer size
    out.append(f + rb(r, r.randrange(1, 64)))
    if n < 4096:
        out.append(f + b"\0" * (4096 - n))
    return out


def giants():
    """Requests whose answers approach or exceed what the 16-bit length fields of UDP / IP can carry
    (the DNS answer is about 3.4 times the query), and echo data near the IP maximum."""
    out = []
    for n in (1024, 2700, 2729, 2730, 2740, 3300, 3400):
        q = dns_query(n & 0xffff, 0x0100, [(b"a",) for _ in range(n)])
        out.append(peer4().udp(4000, 53, q))
        out.append(peer6().udp(4000, 53, q))
    out.append(peer4().echo(1, 1, b"e" * 60000))
    out.append(peer6().echo(1, 1, b"e" * 60000))
    return out


def c01_seeds(r):
    p4, p6 = peer4(), peer6()
    cm = mac(CMAC)
    seeds = [f for _, f in base_requests(SMAC, C4, S4, C6, S6)]
    seeds += [f for _, f in base_requests(b"\xff" * 6, D4, O4, D6, O6)]
    apps = app_requests(r) + app_requests(r, tcpmode=True) + [
        dns_query(questions=[(b"a", b"b"), (b"c",)]), dns_query(counts=(1, 1, 0, 0), tail=b"\xc0\x0c\0\1\0\1\0\0\0\x3c\0\4\1\2\3\4"),
        stun(1, STUN_MAGIC + b"\x09" * 12, stun_attr(0x8022, b"z" * 256) + stun_change_request(True, True) + stun_attr(1, b"\0\1\x12\x34\1\2\3\4") +
             stun_attr(1, b"\0\2\x12\x34" + b"\6" * 16) + stun_attr(0x20, b"\0\1\0\0\0\0\0\0")),
        rpc_call(vers=4, proc=4), rpc_call(vers=3, proc=3), rpc_call(cred=b"c" * 12, verf=b"v" * 8),
        http_request("GET", b"/\xff\xfe", headers=[b"Content-Length: 5", b"Content-Type: x"], body=b"hello"),
        ssh_ident(comment=b"a comment"), smb1_negotiate([b"LANMAN1.0", b"NT LM 0.12", b"SMB 2.002"]), smb2_negotiate([0x0311, 0x0202])]
    for q in apps:
        seeds.append(p4.udp(4321, 1234, q))
        seeds.append(p6.udp(4321, 1234, q))
    seeds.append(eth(SMAC, cm, 0x86DD, ipv6(C6, S6, 58, nd_ns(C6, S6, S6, b"\x01\x01" + cm + b"\x0e\x01" + b"n" * 6), hlim=255)))
    seeds.append(p4.l3(1, icmp(13, 0, b"\0" * 16)))
    seeds.append(eth(SMAC, cm, 0x0800, ipv4(C4, S4, 6, tcp(C4, S4, 1, 2, 3, 4, F_SYN, b"", doff=8, options=b"\x02\x04\x05\xb4\x01\x03\x03\x07\x04\x02\x00\x00"), ihl=5)))
    seeds.append(eth(SMAC, cm, 0x0800, ipv4(C4, S4, 17, udp(C4, S4, 1, 2, stun(1, b"\1" * 16)), ihl=7, options=b"\x07\x07\x04\0\0\0\0\0")))
    return seeds, apps


def config_matrix(tier):
    out = []
    for selfl in (None, [S4, S6]):
        for deny in (None, [D4, D6]):
            for logger in ("none", "console", "logfmt"):
                for level in range(5):
                    out.append(Config(SMAC, selfl, deny, KEYS[1], logger, level))
    if tier != "quick":
        return out
    # a covering subset: every value of every dimension, all levels with each logger at least once
    pick = [c for i, c in enumerate(out) if (i * 7) % 11 == 0]
    must = [Config(SMAC, [S4, S6], [D4, D6], KEYS[1], "logfmt", 4), Config(SMAC, None, None, KEYS[1], "console", 3),
            Config(SMAC, [S4, S6], None, KEYS[1], "none", 1), Config(SMAC, None, [D4, D6], KEYS[1], "none", 2), Config(SMAC, None, None, KEYS[1], "none", 0)]
    return must + pick[:3]


def gen_crash(runner, tier, seed):
    r = rng_for(seed, "C01")
    seeds, apps = c01_seeds(r)
    muts = []
    core = []          # run under every configuration: truncation at each layer boundary (+-1), empty layers
    for f in seeds:
        muts += mutations(f, r, tier)
        offs = frame_offsets(f)
        cuts = set([0, 13, 14, 15])
        for key in ("ip", "l4", "app"):
            if key in offs:
                cuts.update([offs[key] - 1, offs[key], offs[key] + 1, offs[key] + 2, offs[key] + 4])
        if "arp" in offs:
            cuts.update([41, 42, 43])
        for c in sorted(cuts):
            if 0 <= c < len(f):
                core.append(f[:c])
    core = list(dict.fromkeys(core))
    if tier == "quick":
        r.shuffle(muts)
        keep = 30000
        muts = muts[:keep]
    cfgs = config_matrix(tier)
    for ci, cfg in enumerate(cfgs):
        s = runner.session(cfg, "crash matrix cfg %d: self=%s deny=%s logger=%s level=%d" % (ci, bool(cfg.self_ips), bool(cfg.deny), cfg.logger, cfg.level))
        # thorough: every mutation under six configurations spread over the matrix, a tenth elsewhere
        if tier != "quick":
            part = muts if ci % 10 == 0 else muts[ci % 10::10]
        else:
            part = muts[ci::len(cfgs)] + muts[(ci + 1) % len(cfgs)::len(cfgs)][:1000]
        s.send(seeds)
        s.send(core)
        if ci % 4 == 0 or tier != "quick":
            s.send(giants())
        for ch in chunks(part, 3000):
            s.reset()                 # also a cut point for the validation chunks
            s.send(ch)
        s.reset()
        # histories: mutated continuation segments on validated flows that hold partial parser state
        p4, p6 = peer4(), peer6()
        flows = [Flow(r.choice([p4, p6]), 30000 + i, r.choice([80, 111, 445]), r.randrange(1 << 32)) for i in range(60 if tier == "quick" else 600)]
        live = open_flows(s, flows)
        firsts, nexts = [], []
        for f in live:
            q = r.choice(HTTP_REQS + rpc_reqs(r) + [q for q in apps if len(q) > 8])
            cut = r.randrange(0, min(len(q), 40) + 1)
            firsts.append(f.data(q[:cut]))
            rest = bytearray(q[cut:])
            for _ in range(r.choice([0, 0, 1, 2, 5])):
                if rest:
                    rest[r.randrange(len(rest))] = r.randrange(256)
            if r.random() < 0.2:
                rest = rest[:r.randrange(0, len(rest) + 1)]
            if r.random() < 0.1:
                rest += rb(r, r.randrange(1, 3000))
            nexts.append((f, bytes(rest)))
        s.send(firsts)
        s.send([f.data(x) for f, x in nexts])
        s.send([f.data(rb(r, r.randrange(0, 64))) for f, _ in nexts])
        if tier != "quick":
            runner.flush()
    if tier != "quick":
        # release profile (wrapping arithmetic, no overflow checks): the same frames must neither
        # abort nor hang (per-batch watchdog in the driver client)
        for cfg in (Config(SMAC, [S4, S6], [D4, D6], KEYS[1], "logfmt", 4), Config(SMAC, None, None, KEYS[1], "none", 0)):
            s = runner.session(cfg, "crash matrix, release profile: self=%s logger=%s level=%d" % (bool(cfg.self_ips), cfg.logger, cfg.level), release=True)
            s.send(seeds)
            s.send(core)
            for ch in chunks(muts[::3], 3000):
                s.reset()
                s.send(ch)
