#!/bin/sh
# mutall.sh <patch.diff> : run every quick check against a seeded change
exec "$(dirname "$0")/mutest.sh" "$1" quick C01 C02 C03 C04 C05 C06 C07 C08 C09 C10 C11 C12 C13 C14 C15 C16 C17 C18 C19 C20
