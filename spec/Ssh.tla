-------------------------------- MODULE Ssh ---------------------------------
(***************************************************************************)
(* SSH identification exchange and Gh0st (property C18).                   *)
(*   'SSH-' (digits and dots) '-' software [SP comment] CR LF              *)
(* Strict: non-empty version and software, software and comment made of    *)
(* arbitrary bytes except NUL and LF (a lone CR, i.e. one not followed by  *)
(* LF, is an ordinary byte), no SP inside software, terminated by CR LF    *)
(* => MUST be answered with exactly "SSH-2.0-1\r\n".                       *)
(* Loose: everything that is neither unterminated nor malformed (a lone CR *)
(* inside software/comment, an empty software string are tolerated);       *)
(* not accepted by Loose => MUST NOT be answered.                          *)
(***************************************************************************)
EXTENDS Integers, Sequences, SequencesExt

SSH_REPLY == << 83, 83, 72, 45, 50, 46, 48, 45, 49, 13, 10 >>     \* "SSH-2.0-1\r\n"
GHOST_MAGIC == << 71, 104, 48, 115, 116 >>                        \* "Gh0st"

IsDigitOrDot(c) == (c >= 48 /\ c <= 57) \/ c = 46

(* loose automaton: [st, prev] ; mirrors the tolerant reading of RFC 4253 *)
SshLooseStep(st, c) ==
    CASE st = "S1" -> IF c = 83 THEN "S2" ELSE "FAIL"
      [] st = "S2" -> IF c = 83 THEN "S3" ELSE "FAIL"
      [] st = "S3" -> IF c = 72 THEN "S4" ELSE "FAIL"
      [] st = "S4" -> IF c = 45 THEN "VER" ELSE "FAIL"
      [] st = "VER" -> IF c = 45 THEN "SOFT" ELSE IF IsDigitOrDot(c) THEN "VER" ELSE "FAIL"
      [] st = "SOFT" -> IF c = 13 THEN "SOFTCR" ELSE IF c = 32 THEN "COMM" ELSE "SOFT"
      [] st = "SOFTCR" -> IF c = 10 THEN "EOB" ELSE IF c = 13 THEN "SOFTCR"
                          ELSE IF c = 32 THEN "COMM" ELSE "SOFT"
      [] st = "COMM" -> IF c = 13 THEN "COMMCR" ELSE "COMM"
      [] st = "COMMCR" -> IF c = 10 THEN "EOB" ELSE IF c = 13 THEN "COMMCR" ELSE "COMM"
      [] OTHER -> st

SshStrictStep(st, c) ==
    CASE st = "S1" -> IF c = 83 THEN "S2" ELSE "FAIL"
      [] st = "S2" -> IF c = 83 THEN "S3" ELSE "FAIL"
      [] st = "S3" -> IF c = 72 THEN "S4" ELSE "FAIL"
      [] st = "S4" -> IF c = 45 THEN "VER0" ELSE "FAIL"
      [] st = "VER0" -> IF IsDigitOrDot(c) THEN "VER" ELSE "FAIL"
      [] st = "VER" -> IF c = 45 THEN "SOFT0" ELSE IF IsDigitOrDot(c) THEN "VER" ELSE "FAIL"
      [] st = "SOFT0" -> IF c = 13 \/ c = 10 \/ c = 32 \/ c = 0 THEN "FAIL" ELSE "SOFT"
      [] st = "SOFT" -> IF c = 13 THEN "SOFTCR" ELSE IF c = 32 THEN "COMM"
                        ELSE IF c = 10 \/ c = 0 THEN "FAIL" ELSE "SOFT"
      [] st = "SOFTCR" -> IF c = 10 THEN "EOB" ELSE IF c = 13 THEN "SOFTCR" ELSE IF c = 32 THEN "COMM"
                          ELSE IF c = 0 THEN "FAIL" ELSE "SOFT"
      [] st = "COMM" -> IF c = 13 THEN "COMMCR" ELSE IF c = 10 \/ c = 0 THEN "FAIL" ELSE "COMM"
      [] st = "COMMCR" -> IF c = 10 THEN "EOB" ELSE IF c = 13 THEN "COMMCR" ELSE IF c = 0 THEN "FAIL" ELSE "COMM"
      [] OTHER -> st

SshLooseRun(s, i, st0) ==
    FoldLeft(LAMBDA st, c : IF st = "EOB" \/ st = "FAIL" THEN st ELSE SshLooseStep(st, c), st0, s)

SshStrictRun(s, i, st0) ==
    FoldLeft(LAMBDA st, c : IF st = "EOB" \/ st = "FAIL" THEN st ELSE SshStrictStep(st, c), st0, s)

SshMust(s)    == SshStrictRun(s, 1, "S1") = "EOB"
SshMustNot(s) == SshLooseRun(s, 1, "S1") # "EOB"

IsSshBanner(r) == Len(r) >= 4 /\ SubSeq(r, 1, 4) = << 83, 83, 72, 45 >>

(***************************************************************************)
(* Gh0st: magic, LE32 total length = frame length, LE32 uncompressed       *)
(* length = what the zlib body inflates to.  Inflating is outside TLA+:    *)
(* the harness inflates the body with an independent zlib and passes the   *)
(* length (or -1) as aux.inflated.                                         *)
(***************************************************************************)
LE32(b, o) == << b[o + 4] * 256 + b[o + 3], b[o + 2] * 256 + b[o + 1] >>
Pair32(n) == << n \div 65536, n % 65536 >>

IsGhost(r) == Len(r) >= 5 /\ SubSeq(r, 1, 5) = GHOST_MAGIC

GhostFails(r, inflated) ==
    IF ~IsGhost(r) THEN { "gh0st-magic" }
    ELSE IF Len(r) < 13 THEN { "gh0st-header" }
    ELSE (IF LE32(r, 5) = Pair32(Len(r)) THEN {} ELSE { "gh0st-total-length" })
         \cup (IF inflated >= 0 /\ LE32(r, 9) = Pair32(inflated) THEN {} ELSE { "gh0st-uncompressed-length" })
=============================================================================
