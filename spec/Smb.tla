-------------------------------- MODULE Smb ---------------------------------
(***************************************************************************)
(* SMB1 / SMB2 Negotiate and Session-Setup inside a NetBIOS session        *)
(* message (property C17).  Response: NetBIOS length = bytes that follow,  *)
(* reply flag set, command and correlation fields echoed, every embedded   *)
(* length/offset consistent with the security blob actually present, the   *)
(* selected dialect one the client offered.  Messages flagged as responses *)
(* or carrying other commands are not answered.                            *)
(* All multi-byte SMB fields are little endian.  Offsets are from the      *)
(* start of the payload; the SMB message starts at offset 4.               *)
(***************************************************************************)
EXTENDS Integers, Sequences, FiniteSets

L16(b, o) == b[o + 2] * 256 + b[o + 1]
NbtLen(b) == << b[2] % 2, b[3] * 256 + b[4] >>              \* 17-bit length as <<bit16, low16>>
NbtLenIs(b, n) == b[1] = 0 /\ b[2] < 2 /\ NbtLen(b) = << n \div 65536, n % 65536 >>

(* ------------------------------- SMB1 ---------------------------------- *)
S1Cmd(p)    == p[4 + 5]
S1Flags(p)  == p[4 + 10]
S1Corr(p)   == << SubSeq(p, 4 + 13, 4 + 14),      \* PIDHigh
                  SubSeq(p, 4 + 25, 4 + 32) >>     \* TID, PIDLow, UID, MID
S1HdrOK(p)  == Len(p) >= 4 + 32
S1IsReply(p) == S1HdrOK(p) /\ S1Flags(p) >= 128

S1Nul(p, o, e) ==       \* offset of the first NUL in [o, e), or -1
    LET z == { k \in (o + 1)..e : p[k] = 0 } IN
    IF z = {} THEN -1 ELSE (CHOOSE k \in z : \A m \in z : k <= m) - 1

(* dialect strings of a negotiate request: 0x02 <non-NUL bytes> 0x00 ... tiling [o, e) *)
RECURSIVE S1Dialects(_, _, _, _)
S1Dialects(p, o, e, n) ==
    IF o = e THEN n
    ELSE IF p[o + 1] # 2 THEN -1
    ELSE LET z == S1Nul(p, o + 1, e) IN
         IF z = -1 \/ z = o + 1 THEN -1 ELSE S1Dialects(p, z + 1, e, n + 1)


(* clean SMB1 negotiate request; the number of dialects offered (>= 1), or 0 *)
S1NegotiateCount(p) ==
    IF ~(S1HdrOK(p) /\ Len(p) >= 4 + 35 /\ S1Cmd(p) = 114 /\ S1Flags(p) < 128 /\ p[4 + 33] = 0) THEN 0
    ELSE LET bc == L16(p, 4 + 33) IN
         IF bc < 3 \/ 4 + 35 + bc # Len(p) \/ ~NbtLenIs(p, Len(p) - 4) THEN 0
         ELSE LET n == S1Dialects(p, 4 + 35, Len(p), 0) IN IF n < 1 THEN 0 ELSE n

(* does the request offer the dialect string "NT LM 0.12" (02 "NT LM 0.12" 00) anywhere in its data? *)
NTLM012 == << 2, 78, 84, 32, 76, 77, 32, 48, 46, 49, 50, 0 >>
S1OffersNtLm(p) == \E k \in (4 + 35)..(Len(p) - 12) : SubSeq(p, k + 1, k + 12) = NTLM012

(* clean SMB1 session-setup request with extended security (12 words) *)
S1SessionSetupClean(p) ==
    /\ S1HdrOK(p) /\ Len(p) >= 4 + 32 + 1 + 24 + 2
    /\ S1Cmd(p) = 115 /\ S1Flags(p) < 128 /\ p[4 + 33] = 12
    /\ NbtLenIs(p, Len(p) - 4)
    /\ LET sbl == L16(p, 4 + 33 + 14)              \* SecurityBlobLength (word 7)
           bc  == L16(p, 4 + 33 + 24)
       IN sbl >= 1 /\ bc >= sbl /\ 4 + 59 + bc = Len(p)

S1OtherCommand(p) == S1HdrOK(p) /\ S1Cmd(p) \notin { 114, 115 }

IsSmb1(r) == Len(r) >= 8 /\ SubSeq(r, 5, 8) = << 255, 83, 77, 66 >>
IsSmb2(r) == Len(r) >= 8 /\ SubSeq(r, 5, 8) = << 254, 83, 77, 66 >>

(* generic SMB1 response body: word count, words, byte count = what follows *)
S1BodyOK(r) ==
    /\ Len(r) >= 4 + 35
    /\ LET wc == r[4 + 33] IN
       /\ Len(r) >= 4 + 33 + 2 * wc + 2
       /\ L16(r, 4 + 33 + 2 * wc) = Len(r) - (4 + 33 + 2 * wc + 2)

S1ReplyFails(p, r, ndialects) ==
    IF ~(IsSmb1(r) /\ Len(r) >= 4 + 35) THEN { "smb1-header" }
    ELSE
    (IF NbtLenIs(r, Len(r) - 4) THEN {} ELSE { "netbios-length" })
    \cup (IF S1Flags(r) >= 128 THEN {} ELSE { "smb1-reply-flag" })
    \cup (IF S1Cmd(r) = S1Cmd(p) THEN {} ELSE { "smb1-command-echo" })
    \cup (IF S1Corr(r) = S1Corr(p) THEN {} ELSE { "smb1-pid-tid-uid-mid-echo" })
    \cup (IF S1BodyOK(r) THEN {} ELSE { "smb1-bytecount" })
    \cup (IF S1Cmd(p) = 114
          THEN (IF L16(r, 4 + 33) < ndialects \/ (L16(r, 4 + 33) = 65535 /\ ~S1OffersNtLm(p))   \* 0xFFFF: none of them
                THEN {} ELSE { "smb1-dialect-index-offered" })
          ELSE (* session setup: SecurityBlobLength (word 3) fits in ByteCount *)
               (IF r[4 + 33] >= 4 /\ Len(r) >= 4 + 33 + 2 * r[4 + 33] + 2
                   /\ L16(r, 4 + 33 + 6) <= L16(r, 4 + 33 + 2 * r[4 + 33])
                THEN {} ELSE { "smb1-security-blob-length" }))

(* the request-independent part: framing, reply flag, echoed command and ids *)
S1ReplyShellFails(p, r) ==
    IF ~(IsSmb1(r) /\ Len(r) >= 4 + 35 /\ S1HdrOK(p)) THEN { "smb1-header" }
    ELSE (IF NbtLenIs(r, Len(r) - 4) THEN {} ELSE { "netbios-length" })
         \cup (IF S1Flags(r) >= 128 THEN {} ELSE { "smb1-reply-flag" })
         \cup (IF S1Cmd(r) = S1Cmd(p) THEN {} ELSE { "smb1-command-echo" })
         \cup (IF S1Corr(r) = S1Corr(p) THEN {} ELSE { "smb1-pid-tid-uid-mid-echo" })
         \cup (IF S1BodyOK(r) THEN {} ELSE { "smb1-bytecount" })

(* ------------------------------- SMB2 ---------------------------------- *)
S2HdrOK(p)   == Len(p) >= 4 + 64
S2Cmd(p)     == L16(p, 4 + 12)
S2Flags0(p)  == p[4 + 17]                                   \* low byte of Flags
S2IsReply(p) == S2HdrOK(p) /\ S2Flags0(p) % 2 = 1
S2Corr(p)    == SubSeq(p, 4 + 25, 4 + 48)                   \* MessageId, AsyncId, SessionId
S2OtherCommand(p) == S2HdrOK(p) /\ S2Cmd(p) \notin { 0, 1 }

RECURSIVE S2DialectSeq(_, _, _)
S2DialectSeq(p, o, n) == IF n = 0 THEN << >> ELSE << L16(p, o) >> \o S2DialectSeq(p, o + 2, n - 1)

(* the dialects of a clean negotiate request (a sequence), or << >> *)
S2NegotiateDialects(p) ==
    IF ~(S2HdrOK(p) /\ Len(p) >= 4 + 64 + 36 /\ S2Cmd(p) = 0 /\ S2Flags0(p) % 2 = 0
         /\ L16(p, 4 + 64) = 36 /\ NbtLenIs(p, Len(p) - 4)) THEN << >>
    ELSE LET n == L16(p, 4 + 66) IN
         IF n < 1 \/ n > 16 \/ 4 + 100 + 2 * n # Len(p) THEN << >>
         ELSE LET d == S2DialectSeq(p, 4 + 100, n) IN
              IF Cardinality({ d[i] : i \in 1..n }) = n THEN d ELSE << >>       \* duplicates: unspecified

(* a negotiate request that offers nothing: DialectCount = 0 (whatever follows) *)
S2NegotiateOffersNothing(p) ==
    /\ S2HdrOK(p) /\ Len(p) >= 4 + 64 + 36 /\ S2Cmd(p) = 0 /\ S2Flags0(p) % 2 = 0
    /\ L16(p, 4 + 64) = 36 /\ L16(p, 4 + 66) = 0

(* the dialects a negotiate request declares, as far as the message holds them (no de-duplication) *)
S2DeclaredDialects(p) ==
    IF ~(S2HdrOK(p) /\ Len(p) >= 4 + 64 + 36 /\ S2Cmd(p) = 0) THEN {}
    ELSE LET n == L16(p, 4 + 66)
             m == IF 4 + 100 + 2 * n <= Len(p) THEN n ELSE (Len(p) - 4 - 100) \div 2
         IN { L16(p, 4 + 100 + 2 * (k - 1)) : k \in 1..(IF m > 64 THEN 64 ELSE m) }

KNOWN_SMB2_DIALECTS == { 514, 528, 767, 768, 770, 784, 785 }    \* 0x0202 0x0210 0x02ff 0x0300 0x0302 0x0310 0x0311

S2SessionSetupClean(p) ==
    /\ S2HdrOK(p) /\ Len(p) >= 4 + 64 + 24 + 1
    /\ S2Cmd(p) = 1 /\ S2Flags0(p) % 2 = 0 /\ L16(p, 4 + 64) = 25
    /\ NbtLenIs(p, Len(p) - 4)
    /\ LET off == L16(p, 4 + 64 + 12)  sl == L16(p, 4 + 64 + 14) IN
       sl >= 1 /\ off = 88 /\ 4 + off + sl = Len(p)

S2ReplyFails(p, r, offered) ==
    IF ~(IsSmb2(r) /\ Len(r) >= 4 + 64 + 8) THEN { "smb2-header" }
    ELSE
    (IF NbtLenIs(r, Len(r) - 4) THEN {} ELSE { "netbios-length" })
    \cup (IF S2Flags0(r) % 2 = 1 THEN {} ELSE { "smb2-reply-flag" })
    \cup (IF S2Cmd(r) = S2Cmd(p) THEN {} ELSE { "smb2-command-echo" })
    \cup (IF S2Corr(r) = S2Corr(p) THEN {} ELSE { "smb2-message-async-session-id-echo" })
    \cup (IF S2Cmd(p) = 0
          THEN IF Len(r) < 4 + 64 + 64 THEN { "smb2-negotiate-response" }
               ELSE (IF L16(r, 4 + 64 + 4) \in { offered[i] : i \in 1..Len(offered) } THEN {} ELSE { "smb2-dialect-offered" })
                    \cup LET off == L16(r, 4 + 64 + 56)  sl == L16(r, 4 + 64 + 58) IN
                         (IF (sl = 0 \/ off = 128) /\ 4 + off + sl = Len(r) THEN {} ELSE { "smb2-security-buffer" })
          ELSE LET off == L16(r, 4 + 64 + 4)  sl == L16(r, 4 + 64 + 6) IN
               (IF (sl = 0 \/ off = 72) /\ 4 + off + sl = Len(r) THEN {} ELSE { "smb2-security-buffer" }))
S2ReplyShellFails(p, r) ==
    IF ~(IsSmb2(r) /\ Len(r) >= 4 + 64 + 8 /\ S2HdrOK(p)) THEN { "smb2-header" }
    ELSE (IF NbtLenIs(r, Len(r) - 4) THEN {} ELSE { "netbios-length" })
         \cup (IF S2Cmd(p) = 0 /\ S2Cmd(r) = 0 /\ Len(r) >= 4 + 64 + 6 /\ Len(p) >= 4 + 64 + 36
               THEN (IF L16(r, 4 + 64 + 4) \in S2DeclaredDialects(p) THEN {} ELSE { "smb2-dialect-offered" })
               ELSE {})
         \cup (IF S2Flags0(r) % 2 = 1 THEN {} ELSE { "smb2-reply-flag" })
         \cup (IF S2Cmd(r) = S2Cmd(p) THEN {} ELSE { "smb2-command-echo" })
         \cup (IF S2Corr(r) = S2Corr(p) THEN {} ELSE { "smb2-message-async-session-id-echo" })
=============================================================================
