-------------------------------- MODULE App --------------------------------
(***************************************************************************)
(* The application layer: reference dispatcher (which responder, if any,   *)
(* must handle a payload - properties C10, C11, C12) and the request /     *)
(* response relations of the protocols (C13 - C18).                        *)
(*                                                                         *)
(* Classify yields a tri-state verdict taken from the property statements: *)
(*   "must"    - a clean request of the identified protocol: answered, and *)
(*               the answer satisfies that protocol's relation;            *)
(*   "mustnot" - one of the faults the statements name: no application     *)
(*               data in response (silence over UDP, a bare ACK over TCP); *)
(*   "any"     - the statements do not say; either behaviour is accepted.  *)
(* Over TCP the stream protocols (HTTP, ONC-RPC) are judged on the byte    *)
(* stream accepted so far (before \o seg), whatever its segmentation; the  *)
(* other protocols are judged on a first segment that holds the request.   *)
(***************************************************************************)
EXTENDS Integers, Sequences, SequencesExt, FiniteSets, TLC, Sig, Http, Ssh, Stun, Dns, Rpc, Smb

Cls(proto, ans, prop, why) == [ proto |-> proto, ans |-> ans, prop |-> prop, why |-> why ]

ClassifyDatagramLike(id, seg, ctx) ==
    CASE id = "SSH" ->
            IF SshMust(seg) THEN Cls(id, "must", "C18", "ssh-identification")
            ELSE IF SshMustNot(seg) THEN Cls(id, "mustnot", "C18", "ssh-unterminated-or-malformed")
            ELSE Cls(id, "any", "C18", "ssh-unspecified")
      [] id = "GHOST" -> Cls(id, "must", "C18", "gh0st")
      [] id = "STUN" ->
            IF StunCleanRequest(seg) THEN Cls(id, "must", "C15", "stun-binding-request")
            ELSE Cls(id, "any", "C15", "stun-malformed")
      [] id = "SMB1" ->
            IF S1NegotiateCount(seg) > 0 THEN Cls(id, "must", "C17", "smb1-negotiate")
            ELSE IF S1SessionSetupClean(seg) THEN Cls(id, "must", "C17", "smb1-session-setup")
            ELSE IF S1IsReply(seg) THEN Cls(id, "mustnot", "C17", "smb1-reply-flag")
            ELSE IF S1OtherCommand(seg) THEN Cls(id, "mustnot", "C17", "smb1-other-command")
            ELSE Cls(id, "any", "C17", "smb1-unspecified")
      [] id = "SMB2" ->
            LET d == S2NegotiateDialects(seg)
                ds == { d[i] : i \in 1..Len(d) }
            IN
            IF S2IsReply(seg) THEN Cls(id, "mustnot", "C17", "smb2-reply-flag")
            ELSE IF S2OtherCommand(seg) THEN Cls(id, "mustnot", "C17", "smb2-other-command")
            ELSE IF S2NegotiateOffersNothing(seg) THEN Cls(id, "mustnot", "C17", "smb2-no-dialect-offered")
            ELSE IF d # << >> /\ ds \cap { 514, 528 } # {} THEN Cls(id, "must", "C17", "smb2-negotiate")
            ELSE IF d # << >> /\ ds \cap KNOWN_SMB2_DIALECTS = {} THEN Cls(id, "mustnot", "C17", "smb2-no-supported-dialect")
            ELSE IF S2SessionSetupClean(seg) THEN Cls(id, "must", "C17", "smb2-session-setup")
            ELSE Cls(id, "any", "C17", "smb2-unspecified")
      [] OTHER -> Cls(id, "any", "C10", "unspecified")

ClassifyUdp(seg, ctx) ==
    LET id == RefId(seg, TRUE) IN
    CASE id = "HTTP" ->
            LET n == RefPos(seg, TRUE) - 2 IN
            IF HttpStrict(seg, n).at > 0 THEN Cls(id, "must", "C13", "http-complete-request")
            ELSE IF HttpLoose(seg, n).at = 0 THEN Cls(id, "mustnot", "C13", "http-malformed-or-unterminated")
            ELSE Cls(id, "any", "C13", "http-unspecified")
      [] id = "RPC_UDP" ->
            IF RpcCleanCall(seg, 0) THEN Cls(id, "must", "C16", "rpc-call")
            ELSE Cls(id, "any", "C16", "rpc-unspecified")
      [] id = "RPC_TCP" -> Cls(id, "any", "C16", "rpc-record-marked-datagram")
      [] id = "none" /\ Len(seg) >= 20 /\ StunType(seg) = 1 /\ StunLen(seg) = Len(seg) - 20 ->
            (* a binding request in a shape the compiled signatures do not list (C15: "with or *)
            (* without the magic cookie"): answered by STUN or not at all                      *)
            Cls("STUN", "any", "C15", "stun-binding-request-outside-the-signatures")
      [] id = "none" ->
            LET w == QListC(seg) IN
            IF DnsIsResponse(seg) THEN Cls("DNS", "mustnot", "C12", "dns-response")
            ELSE IF DnsTruncatedW(seg, w) THEN Cls("DNS", "mustnot", "C14", "dns-truncated")
            ELSE IF DnsHasOtherQuestionW(seg, w) THEN Cls("DNS", "mustnot", "C14", "dns-question-not-in-a")
            ELSE IF DnsCleanQueryW(seg, w) /\ ctx.ver = 4 THEN Cls("DNS", "must", "C14", "dns-in-a-query")
            ELSE Cls("DNS", "any", "C14", "dns-unspecified")
      [] OTHER -> ClassifyDatagramLike(id, seg, ctx)

(* Message-oriented responders (SSH, Gh0st, SMB, STUN) are handed the bytes buffered while  *)
(* the signature was still undecided together with the segment that completes it (C10: the *)
(* decision is the same however the leading bytes are cut): for that segment the message   *)
(* is the stream so far.  Later segments are judged on their own.                          *)
SplitWhole(before, seg) ==
    LET s == before \o seg
        id == RefId(s, FALSE)
    IN /\ before # << >>
       /\ id \in { "SSH", "GHOST", "SMB1", "SMB2", "STUN" }
       /\ RefPos(s, FALSE) > Len(before)
       /\ (id = "STUN" => Len(s) >= 8 /\ SubSeq(s, 5, 8) = << 33, 18, 164, 66 >>)

AppMsg(transport, before, seg) == IF transport = "tcp" /\ SplitWhole(before, seg) THEN before \o seg ELSE seg

(* Later requests on a flow (C13 speaks of every complete request, C11 only of the first): *)
(* s starts at a request boundary and lb of its bytes arrived before this segment.  TRUE iff *)
(* s is tiled by strictly complete requests (no body, no stray bytes in between) up to one   *)
(* that this segment completes.                                                              *)
RECURSIVE HttpLaterRequest(_, _, _)
HttpLaterRequest(s, lb, depth) ==
    IF depth = 0 \/ Len(s) = 0 \/ RefId(s, FALSE) # "HTTP" THEN FALSE
    ELSE LET e == HttpStrict(s, RefPos(s, FALSE) - 2).at IN
         IF e = 0 THEN FALSE
         ELSE IF e > lb THEN TRUE
         ELSE IF HttpAnnouncesBody(SubSeq(s, 1, e)) THEN FALSE       \* what follows may be that request's body
         ELSE HttpLaterRequest(SubSeq(s, e + 1, Len(s)), lb - e, depth - 1)

(* ONC-RPC over TCP is a sequence of records.  Offset at which the record begins that a    *)
(* segment is judged for: records answered before this segment and cleanly delimited (one *)
(* last fragment of the announced length holding a complete clean call) are skipped.      *)
RECURSIVE RpcRecordStart(_, _, _, _)
RpcRecordStart(s, b, lb, depth) ==
    IF depth = 0 \/ Len(s) < b + 44 THEN b
    ELSE LET p  == SubSeq(s, b + 1, Len(s))
             c  == RpcCall(p, 4)
             rl == RmLen(p)
         IN IF /\ RpcCleanCall(p, 4) /\ b + c.hdrend <= lb        \* answered before this segment
               /\ RmLast(p) /\ rl[1] = 0
               /\ 4 + rl[2] >= c.end                               \* the call lies inside its record
               /\ b + 4 + rl[2] <= Len(s)                          \* and the record is over
            THEN RpcRecordStart(s, b + 4 + rl[2], lb, depth - 1)
            ELSE b

ClassifyTcp(before, seg, ctx) ==
    LET s  == before \o seg
        id == RefId(s, FALSE)
        lb == Len(before)
    IN
    CASE id = "undecided" -> Cls("none", "mustnot", "C10", "no-signature-completed-yet")
      [] id = "none" -> Cls("none", "mustnot", "C10", "no-signature")
      [] id = "HTTP" ->
            LET n == RefPos(s, FALSE) - 2
                strict == HttpStrict(s, n)
                loose == HttpLoose(s, n)
            IN
            IF strict.at > lb THEN Cls(id, "must", IF lb = 0 THEN "C13" ELSE "C11", "http-request-completed-by-this-segment")
            ELSE IF loose.at = 0 THEN
                 (* a request line / header that had already gone wrong before this segment: what a  *)
                 (* responder makes of the bytes after it (a new request?) is not for C11 / C13 to say *)
                 IF lb > n /\ HttpLoose(SubSeq(s, 1, lb), n).st = "FAIL"
                 THEN Cls(id, "any", "C13", "http-after-a-malformed-request")
                 ELSE Cls(id, "mustnot", IF lb = 0 THEN "C13" ELSE "C11", "http-malformed-or-unterminated")
            ELSE IF strict.at > 0 /\ ~HttpAnnouncesBody(SubSeq(s, 1, strict.at))
                    /\ HttpLaterRequest(SubSeq(s, strict.at + 1, Len(s)), lb - strict.at, 8)
                 THEN Cls(id, "must", "C13", "http-later-request-completed-by-this-segment")
            ELSE Cls(id, "any", "C13", "http-unspecified-or-already-complete")
      [] id = "RPC_TCP" ->
            (* the record this segment is judged for (records answered earlier are skipped) *)
            LET b   == RpcRecordStart(s, 0, lb, 6)
                p   == SubSeq(s, b + 1, Len(s))
                lbp == IF lb > b THEN lb - b ELSE 0
                later == b > 0
            IN
            IF Len(p) < 44 THEN (IF later THEN Cls(id, "any", "C16", "rpc-later-record-incomplete")
                                 ELSE Cls(id, "mustnot", IF lb = 0 THEN "C16" ELSE "C11", "rpc-call-header-incomplete"))
            ELSE IF later /\ RpcCall(p, 4).ok /\ RpcCall(p, 4).mtype = << 0, 1 >> /\ lbp < RpcCall(p, 4).hdrend
                 THEN Cls(id, "mustnot", "C12", "rpc-reply-message-on-an-open-flow")
            ELSE IF ~later /\ RpcHdrIncomplete(p, 4) /\ RmLast(p) /\ RmLen(p)[1] = 0
                    /\ RmLen(p)[2] >= 32 + RU32(p, 4 + 28)[2] + 8               \* the record is long enough for that header
                 THEN Cls(id, "mustnot", IF lb = 0 THEN "C16" ELSE "C11", "rpc-call-header-incomplete")
            ELSE IF RpcCleanCall(p, 4) THEN
                 LET c  == RpcCall(p, 4)
                     rl == RmLen(p)
                     t2 == IF rl[1] = 0 /\ 4 + rl[2] > c.end THEN 4 + rl[2] ELSE c.end
                 IN IF ~RmLast(p) \/ rl[1] # 0
                    THEN (* a fragment that is not the last of its record, or one announced as longer than *)
                         (* 64 KiB: answering before the record is complete is allowed, not required      *)
                         IF Len(p) < c.hdrend /\ ~later THEN Cls(id, "mustnot", "C11", "rpc-call-header-incomplete")
                         ELSE Cls(id, "any", "C16", "rpc-non-final-or-oversized-fragment")
                    ELSE IF 4 + rl[2] < c.end
                    THEN Cls(id, "any", "C16", "rpc-record-mark-shorter-than-the-call")
                    ELSE IF lbp < c.hdrend /\ Len(p) >= t2
                    THEN Cls(id, "must", IF lb = 0 THEN "C16" ELSE IF later THEN "C16" ELSE "C11",
                             IF later THEN "rpc-later-call-completed-by-this-segment" ELSE "rpc-call-completed-by-this-segment")
                    ELSE IF Len(p) < c.hdrend /\ ~later THEN Cls(id, "mustnot", "C11", "rpc-call-header-incomplete")
                    ELSE Cls(id, "any", "C16", "rpc-within-record")
            ELSE Cls(id, "any", "C16", "rpc-unspecified")
      [] id = "RPC_UDP" -> Cls(id, "any", "C16", "rpc-unframed-over-tcp")
      [] OTHER -> IF lb = 0 THEN ClassifyDatagramLike(id, seg, ctx)
                  ELSE IF SplitWhole(before, seg) THEN ClassifyDatagramLike(id, s, ctx)
                  (* a further NetBIOS session message on an SMB connection (the session setup after the *)
                  (* negotiate): judged like the first, provided every earlier segment was one message   *)
                  ELSE IF id \in { "SMB1", "SMB2" } /\ ctx.nbt /\ RefId(seg, FALSE) = id
                       THEN ClassifyDatagramLike(id, seg, ctx)
                  ELSE Cls(id, "any", "C10", "non-stream-protocol-split")

Classify(transport, before, seg, ctx) ==
    IF transport = "udp" THEN ClassifyUdp(seg, ctx)
    ELSE IF ctx.over THEN Cls("none", "any", "C10", "stream-longer-than-the-model-keeps")
    ELSE ClassifyTcp(before, seg, ctx)

(* who wrote this reply?  (by its syntax) *)
ResponderOf(transport, r) ==
    IF IsHttpResponse(r) THEN "HTTP"
    ELSE IF IsSshBanner(r) THEN "SSH"
    ELSE IF IsGhost(r) THEN "GHOST"
    ELSE IF IsSmb1(r) THEN "SMB1"
    ELSE IF IsSmb2(r) THEN "SMB2"
    ELSE IF IsStunResponse(r) /\ StunLen(r) = Len(r) - 20 /\ StunMethod(r) = 1 THEN "STUN"
    ELSE IF transport = "udp" /\ IsRpcReply(r, 0) THEN "RPC"
    ELSE IF IsRpcReply(r, 4) /\ RmLen(r) = P32(Len(r) - 4) THEN "RPC"
    ELSE IF transport = "udp" /\ Len(r) >= 12 /\ DnsQR(r) = 1 THEN "DNS"
    ELSE "unknown"

Family(id) == IF id \in { "RPC_TCP", "RPC_UDP" } THEN "RPC" ELSE id
SigResponders == { "HTTP", "SSH", "GHOST", "SMB1", "SMB2", "STUN", "RPC" }

(* protocols that mark this payload as one of their replies (C12) *)
ReplyTypedBy(transport, s) ==
    (IF StunReplyTyped(s) THEN { "STUN" } ELSE {})
    \cup (IF transport = "udp" /\ DnsIsResponse(s) THEN { "DNS" } ELSE {})
    \cup (IF Len(s) >= 8 /\ IsSmb1(s) /\ S1IsReply(s) THEN { "SMB1" } ELSE {})
    \cup (IF Len(s) >= 8 /\ IsSmb2(s) /\ S2IsReply(s) THEN { "SMB2" } ELSE {})
    \cup (IF RpcReplyTyped(s, IF transport = "tcp" THEN 4 ELSE 0) THEN { "RPC" } ELSE {})

(* the source-port shifts the statements allow for this payload (C03, C15) *)
AppPortShift(transport, before, seg) ==
    LET m == AppMsg(transport, before, seg) IN
    IF before # << >> /\ ~(transport = "tcp" /\ SplitWhole(before, seg))
    THEN (IF RefId(before \o seg, FALSE) = "STUN" THEN { 0, 1 } ELSE { 0 })     \* only a STUN flow may shift
    ELSE IF RefId(m, transport = "udp") = "STUN" THEN StunShift(m)
         ELSE { 0 }

RelationFails(c, transport, before, seg0, ctx, rpl, aux) ==
    LET s == before \o seg0
        seg == AppMsg(transport, before, seg0)
    IN
    CASE c.proto = "HTTP"  -> Http401Fails(rpl)
      [] c.proto = "SSH"   -> IF rpl = SSH_REPLY THEN {} ELSE { "ssh-exact-server-banner" }
      [] c.proto = "GHOST" -> GhostFails(rpl, aux.inflated)
      [] c.proto = "STUN"  -> StunSuccessFails(seg, rpl, ctx.ver, ctx.src, ctx.sport)
      [] c.proto = "RPC_UDP" -> RpcReplyFails(seg, 0, rpl, 0, ctx.ver, ctx.dport, aux.uaddr)
      [] c.proto = "RPC_TCP" -> LET b == RpcRecordStart(s, 0, Len(before), 6) IN
                                RpcReplyFails(SubSeq(s, b + 1, Len(s)), 4, rpl, 4, ctx.ver, ctx.dport, aux.uaddr)
      [] c.proto = "SMB1"  -> S1ReplyFails(seg, rpl, S1NegotiateCount(seg))
      [] c.proto = "SMB2"  -> S2ReplyFails(seg, rpl, S2NegotiateDialects(seg))
      [] c.proto = "DNS"   -> DnsAnswerFails(seg, rpl, ctx.dst)
      [] OTHER -> {}

(* rpl = << >> means: no application data in response *)
AppJudge(transport, before, done, seg0, ctx, rpl, aux) ==
    LET c == Classify(transport, before, seg0, ctx)
        answered == rpl # << >>
        s == before \o seg0
        seg == AppMsg(transport, before, seg0)
        id == IF ctx.over THEN "over" ELSE RefId(s, transport = "udp")
        who == IF answered THEN ResponderOf(transport, rpl) ELSE "nobody"
        (* reply-typed: the stream as a whole, or (message-oriented protocols) this segment alone *)
        (* reply-typed: the first message of a flow (or a datagram) as it stands; on a later segment the *)
        (* message at hand (message-oriented protocols) or the current record (ONC-RPC over TCP)          *)
        rt == IF ctx.over THEN {}
              ELSE IF transport = "udp" \/ before = << >> THEN ReplyTypedBy(transport, s)
              ELSE (ReplyTypedBy("udp", seg) \ { "RPC" })
                   \cup (IF RefId(s, FALSE) = "RPC_TCP"
                         THEN LET b == RpcRecordStart(s, 0, Len(before), 6) IN
                              IF Len(before) < b + 12 /\ RpcReplyTyped(SubSeq(s, b + 1, Len(s)), 4) THEN { "RPC" } ELSE {}
                         ELSE {})
    IN
    (IF c.ans = "mustnot" /\ answered
     THEN { << c.prop, "answered:" \o c.why >> }
          \cup (IF rt # {} THEN { << "C12", "reply-typed-message-answered" >> } ELSE {})
     ELSE {})
    \cup (IF c.ans = "must" /\ ~answered
          THEN { << c.prop, "unanswered:" \o c.why >> }
               \cup (IF c.proto \in SigProtos THEN { << "C10", "unanswered:request-completing-signature" >> } ELSE {})
          ELSE {})
    \cup (IF c.ans = "must" /\ answered
          THEN { << c.prop, t >> : t \in RelationFails(c, transport, before, seg0, ctx, rpl, aux) }
          ELSE {})
    (* a request the statements leave open may be answered or not - but if the protocol's own *)
    (* responder answers it, the answer still has to be one of that protocol: the parts of the *)
    (* relation that do not depend on the unspecified request fields                           *)
    \cup (IF c.ans = "any" /\ answered /\ who = Family(c.proto)
             /\ (c.proto \in { "SMB1", "SMB2", "STUN" } => before = << >> \/ SplitWhole(before, seg0) \/ RefId(seg0, FALSE) = c.proto)
          THEN CASE c.proto = "HTTP"  -> { << "C13", t >> : t \in Http401Fails(rpl) }
                 [] c.proto = "SSH"   -> IF rpl = SSH_REPLY THEN {} ELSE { << "C18", "ssh-exact-server-banner" >> }
                 [] c.proto = "GHOST" -> { << "C18", t >> : t \in GhostFails(rpl, aux.inflated) }
                 [] c.proto = "STUN"  -> IF Len(seg) < 20 THEN {}
                                         ELSE IF Len(rpl) >= 20 /\ StunClass(rpl) = 3      \* an error response to a malformed request
                                         THEN (IF SubSeq(rpl, 5, 20) = SubSeq(seg, 5, 20) THEN {} ELSE { << "C15", "stun-transaction-id" >> })
                                         ELSE { << "C15", t >> : t \in StunSuccessFails(seg, rpl, ctx.ver, ctx.src, ctx.sport) }
                 [] c.proto = "RPC_UDP" -> IF transport = "udp" THEN { << "C16", t >> : t \in RpcReplyShellFails(seg, 0, rpl, 0) }
                                           ELSE IF RpcReplyShellFails(seg, 0, rpl, 0) = {} \/ RpcReplyShellFails(seg, 0, rpl, 4) = {}
                                           THEN {} ELSE { << "C16", "rpc-reply-to-unframed-call-over-tcp" >> }
                 [] c.proto = "RPC_TCP" -> IF transport = "tcp"
                                           THEN (* the XID is that of the first call only while that call is *)
                                                (* still being received; which call a later answer belongs   *)
                                                (* to is not for this relation to say                        *)
                                                LET b  == RpcRecordStart(s, 0, Len(before), 6)
                                                    p  == SubSeq(s, b + 1, Len(s))
                                                    lbp == IF Len(before) > b THEN Len(before) - b ELSE 0
                                                    first == lbp = 0 \/ lbp < 44 \/ (RpcCall(p, 4).ok /\ lbp < RpcCall(p, 4).hdrend)
                                                IN IF Len(p) < 8 THEN { << "C16", t >> : t \in RpcReplyShellFailsX(s, 4, rpl, 4, FALSE) }
                                                   ELSE { << "C16", t >> : t \in RpcReplyShellFailsX(p, 4, rpl, 4, first) }
                                           ELSE IF transport = "udp"
                                           THEN (* a record-marked call in a datagram: framed or not, the answer echoes the call's XID *)
                                                IF RpcReplyShellFails(seg, 4, rpl, 4) = {} \/ RpcReplyShellFails(seg, 4, rpl, 0) = {}
                                                THEN {} ELSE { << "C16", "rpc-reply-to-record-marked-datagram" >>,
                                                               << "C10", "rpc-framing-decided-by-the-signature-not-the-transport" >> }
                                           ELSE {}
                 [] c.proto = "SMB1"  -> { << "C17", t >> : t \in S1ReplyShellFails(seg, rpl) }
                 [] c.proto = "SMB2"  -> { << "C17", t >> : t \in S2ReplyShellFails(seg, rpl) }
                 [] c.proto = "DNS"   -> IF Len(seg) >= 12 /\ Len(rpl) >= 12
                                         THEN (IF DnsId(rpl) = DnsId(seg) THEN {} ELSE { << "C14", "dns-id" >> })
                                              \cup (IF DnsQR(rpl) = 1 THEN {} ELSE { << "C14", "dns-qr" >> })
                                         ELSE { << "C14", "dns-header" >> }
                 [] OTHER -> {}
          ELSE {})
    (* C10: signature-dispatched responders answer only what the signature set identifies *)
    \cup (IF answered /\ who \in SigResponders /\ id \in { "none", "undecided" }
             /\ ~(who = "STUN" /\ Len(seg) >= 20 /\ StunType(seg) = 1)     \* "STUN binding request" is the published signature
          THEN { << "C10", "answered-without-completed-signature" >> } ELSE {})
    \cup (IF answered /\ who \in SigResponders /\ id \in SigProtos /\ who # Family(id)
          THEN { << "C10", "answered-by-another-protocols-responder" >> } ELSE {})
    \cup (IF answered /\ c.ans = "must" /\ c.proto \in SigProtos /\ who \notin { Family(c.proto), "unknown" }
          THEN { << "C10", "request-completing-a-signature-answered-by-another-responder" >> } ELSE {})
    (* C12: never answered by the protocol whose reply it is; chains die out *)
    \cup (IF answered /\ who \in rt THEN { << "C12", "reply-answered-by-its-own-protocol" >> } ELSE {})
    \cup (IF answered /\ aux.chain >= 2 THEN { << "C12", "reflection-chain-longer-than-two" >> } ELSE {})
    (* C15: other classes and methods get no STUN response *)
    \cup (IF answered /\ who = "STUN" /\ StunOtherClassOrMethod(seg)
          THEN { << "C15", "stun-response-to-non-binding-request" >> } ELSE {})

(***************************************************************************)
(* Canonical form of an application reply for property C19: the reply with *)
(* exactly the fields masked that by specification carry an endpoint       *)
(* address (STUN MAPPED-ADDRESS, portmapper ports/addresses/netids, DNS A  *)
(* RDATA with its length octets) or wall-clock time (HTTP Date, SMB times).*)
(***************************************************************************)
DATEHDR == << 100, 97, 116, 101, 58 >>                       \* "date:"

RECURSIVE LineEnd(_, _)
LineEnd(b, o) == IF o + 1 > Len(b) THEN o ELSE IF b[o + 1] = 10 THEN o ELSE LineEnd(b, o + 1)

EXPIRESHDR == << 101, 120, 112, 105, 114, 101, 115, 58 >>                                  \* "expires:"
LASTMODHDR == << 108, 97, 115, 116, 45, 109, 111, 100, 105, 102, 105, 101, 100, 58 >>     \* "last-modified:"
DropHeaderValue(r, lit) ==
    LET hb == BodyStart(r, 0)
        d  == IF hb = 0 THEN 0 ELSE HeaderLineWith(r, 0, hb, lit)
    IN IF d = 0 THEN r ELSE SubSeq(r, 1, d) \o SubSeq(r, LineEnd(r, d) + 1, Len(r))
HttpCanon(r) == DropHeaderValue(DropHeaderValue(DropHeaderValue(r, DATEHDR), EXPIRESHDR), LASTMODHDR)

RECURSIVE DnsAnswersCanon(_, _, _)
DnsAnswersCanon(r, o, k) ==      \* k answers from offset o: everything but the RDLENGTH / RDATA of IN/A records
    IF k = 0 \/ o + 1 > Len(r) THEN << >>
    ELSE LET ne == IF r[o + 1] \div 64 = 3 THEN o + 2 ELSE NulEnd(r, o) IN
         IF ne = -1 \/ ne + 10 > Len(r) THEN << -1 >>
         ELSE LET nx == ne + 10 + DU16(r, ne + 8)
                  isA == DU16(r, ne) = 1 /\ DU16(r, ne + 2) = 1
              IN (IF isA \/ nx > Len(r) THEN SubSeq(r, o + 1, ne + 8) ELSE SubSeq(r, o + 1, nx))
                 \o DnsAnswersCanon(r, nx, k - 1)

DnsCanon(r) ==
    IF Len(r) < 12 THEN r
    ELSE LET w == Questions(r, 12, IF DnsQd(r) <= QCap THEN DnsQd(r) ELSE 0, << >>) IN
         IF w.st # "ok" THEN r
         ELSE SubSeq(r, 1, w.end) \o DnsAnswersCanon(r, w.end, IF DnsAn(r) <= QCap THEN DnsAn(r) ELSE 0)

ZeroAt(r, o, n) == [ i \in 1..Len(r) |-> IF i > o /\ i <= o + n THEN 0 ELSE r[i] ]

(* STUN: the attributes that carry the observed address ((XOR-)MAPPED-ADDRESS) reduced to their *)
(* type, and the message length (it depends on the address family); everything else kept       *)
StunCanon(r) ==
    LET w == StunWalk(r, 20, Len(r), << >>) IN
    IF Len(r) < 20 \/ ~w.ok THEN r
    ELSE SubSeq(r, 1, 2) \o SubSeq(r, 5, 20)
         \o FoldLeft(LAMBDA acc, a : acc \o (IF a[1] \in { 1, 32 } THEN << 0, a[1] >>
                                              ELSE SubSeq(r, a[3] - 3, IF a[3] + Pad4(a[2]) < Len(r) THEN a[3] + Pad4(a[2]) ELSE Len(r))),
                     << >>, w.a)

(* portmapper success bodies: the port word / universal address / netid reduced to a marker, *)
(* programs, versions, protocols and owners kept                                             *)
RECURSIVE DumpCanon2(_, _), DumpCanon34(_, _, _)
DumpCanon2(r, o) ==          \* version 2 list: (1, prog, vers, prot, port)* 0
    IF o + 4 > Len(r) THEN << -1 >>
    ELSE IF RU32(r, o) = << 0, 0 >> THEN << 0 >>
    ELSE IF o + 20 > Len(r) THEN << -1 >>
    ELSE SubSeq(r, o + 1, o + 16) \o DumpCanon2(r, o + 20)
DumpCanon34(r, o, n) ==      \* version 3/4 list: (1, prog, vers, netid, addr, owner)* 0
    IF n > 32 \/ o + 4 > Len(r) THEN << -1 >>
    ELSE IF RU32(r, o) = << 0, 0 >> THEN << 0 >>
    ELSE LET netid == XdrString(r, o + 12)
             addr  == IF netid.ok THEN XdrString(r, netid.next) ELSE netid
             owner == IF addr.ok THEN XdrString(r, addr.next) ELSE addr
         IN IF ~owner.ok THEN << -1 >>
            ELSE SubSeq(r, o + 1, o + 12) \o SubSeq(r, addr.next + 1, owner.next) \o DumpCanon34(r, owner.next, n + 1)
RpcBodyCanon(r, o) ==
    IF Len(r) = o THEN << >>
    ELSE IF Len(r) = o + 4 THEN << -2 >>                                         \* a port number
    ELSE LET x == XdrString(r, o) IN
         IF x.ok /\ x.next = Len(r) THEN << -3 >>                                \* a universal address
         ELSE IF (Len(r) - o - 4) % 20 = 0 /\ RU32(r, Len(r) - 4) = << 0, 0 >>
                 /\ \A k \in 0..((Len(r) - o - 4) \div 20 - 1) : RU32(r, o + 20 * k) = << 0, 1 >>
         THEN DumpCanon2(r, o)
         ELSE DumpCanon34(r, o, 0)

AppCanon(transport, r) ==
    LET who == ResponderOf(transport, r) IN
    CASE who = "HTTP" -> HttpCanon(r)
      [] who = "STUN" -> StunCanon(r)
      [] who = "DNS"  -> DnsCanon(r)
      [] who = "RPC"  -> LET ro == IF transport = "udp" /\ IsRpcReply(r, 0) THEN 0 ELSE 4 IN
                         IF Len(r) < ro + 24 THEN r
                         ELSE IF RU32(r, ro + 20) = << 0, 0 >>
                         THEN SubSeq(r, ro + 1, ro + 24) \o RpcBodyCanon(r, ro + 24)               \* success bodies carry the endpoint
                         ELSE SubSeq(r, ro + 1, Len(r))
      [] who = "SMB1" -> IF Len(r) >= 4 + 33 + 34 /\ S1Cmd(r) = 114 /\ r[4 + 33] = 17 THEN ZeroAt(r, 4 + 33 + 23, 8) ELSE r
      [] who = "SMB2" -> IF Len(r) >= 4 + 64 + 64 /\ S2Cmd(r) = 0 THEN ZeroAt(r, 4 + 64 + 40, 16) ELSE r
      [] OTHER -> r

(* only the wall-clock fields masked (property C08 compares two runs of the same frame) *)
ClockCanon(transport, r) ==
    LET who == ResponderOf(transport, r) IN
    CASE who = "HTTP" -> HttpCanon(r)
      [] who = "SMB1" -> IF Len(r) >= 4 + 33 + 34 /\ S1Cmd(r) = 114 /\ r[4 + 33] = 17 THEN ZeroAt(r, 4 + 33 + 23, 8) ELSE r
      [] who = "SMB2" -> IF Len(r) >= 4 + 64 + 64 /\ S2Cmd(r) = 0 THEN ZeroAt(r, 4 + 64 + 40, 16) ELSE r
      [] OTHER -> r

(***************************************************************************)
(* Known deviation classes (keys listed in KNOWN_FINDINGS.txt).            *)
(* shadow:<signature>:<position>:<byte> - the compiled matcher loses       *)
(* signature S when, at one of S's wildcard positions, the payload carries *)
(* a byte that another signature (still in the race) has there as literal. *)
(***************************************************************************)
MustWhys == { "ssh-identification", "gh0st", "stun-binding-request", "smb1-negotiate", "smb1-session-setup",
              "smb2-negotiate", "smb2-session-setup", "http-complete-request", "rpc-call", "dns-in-a-query",
              "http-request-completed-by-this-segment", "rpc-call-completed-by-this-segment",
              "http-later-request-completed-by-this-segment", "rpc-later-call-completed-by-this-segment",
              "request-completing-signature" }
UnansweredTags == { "unanswered:" \o y : y \in MustWhys }

ShadowAt(w, p) ==    \* least wildcard position of signature w shadowed in p, or 0
    LET pat == Sigs[w].pat
        js == { j \in 1..Len(pat) :
                  /\ pat[j] = W /\ j <= Len(p)
                  /\ \E t \in 1..NSig : /\ t # w /\ Len(Sigs[t].pat) >= j
                                        /\ Sigs[t].pat[j] = p[j]
                                        /\ \A k \in 1..(j - 1) : Sigs[t].pat[k] = W \/ Sigs[t].pat[k] = p[k] }
    IN IF js = {} THEN 0 ELSE CHOOSE j \in js : \A k \in js : j <= k

AppKnownKey(v, transport, before, seg) ==
    LET s == before \o seg
        w == Winner(s, transport = "udp")
    IN
    IF w = 0 THEN "-"
    ELSE IF v[2] \in UnansweredTags
    THEN LET j == ShadowAt(w, s) IN
         IF j # 0 THEN "shadow:" \o Sigs[w].name \o ":" \o ToString(j - 1) \o ":" \o ToString(s[j])
         ELSE IF transport = "tcp" /\ before # << >> /\ RefPos(s, FALSE) > Len(before) THEN "split-signature"
         ELSE "-"
    ELSE "-"
=============================================================================
