-------------------------------- MODULE App --------------------------------
(* Application layer - stub, replaced below as the protocol modules land. *)
EXTENDS Integers, Sequences
AppPortShift(seg, ctx) == 0
AppJudge(transport, before, done, seg, ctx, rpl, aux) == {}
AppRef(transport, before, done, seg, ctx) == << >>
AppKnownKey(v, transport, before, seg) == "-"
=============================================================================
