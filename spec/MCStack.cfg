SPECIFICATION MCSpec
CONSTANT KnownKeys <- KnownKeysDef
CONSTANT UaddrTable <- UaddrTableDef
VIEW View
CONSTRAINT Bounded
INVARIANT NoViolation
INVARIANT Export
CHECK_DEADLOCK FALSE
