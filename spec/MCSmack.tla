------------------------------ MODULE MCSmack ------------------------------
(***************************************************************************)
(* Property C10, matcher level, exhaustive.                                *)
(*                                                                         *)
(* The compiled protocol matcher of the implementation (module SmackTable, *)
(* generated from the running binary by walking its public stepping API    *)
(* from the base state: one row per reachable state, 256 byte transitions  *)
(* and the end-of-input transition) is explored in lock step with the      *)
(* reference automaton of module Sig over joint byte classes.  Both sides  *)
(* latch their verdict (protocol, number of bytes consumed) at the first   *)
(* completed signature / first reported id.  The product is finite; TLC    *)
(* visits all of it, so the comparison covers every byte string of every   *)
(* length, in stream mode (no end of input) and in datagram mode (an end   *)
(* of input after every prefix).                                           *)
(*                                                                         *)
(* A disagreement is not yet a violation of C10 (which is about answers):  *)
(* every disagreement is printed with a shortest witness, and the check    *)
(* confirms or refutes it on the real stack.                               *)
(***************************************************************************)
EXTENDS Sig, SmackTable, TLC

(* protocol ids used by the dispatcher: 1 HTTP 2 STUN 3 SSH 4 GHOST 5 RPC/TCP 6 RPC/UDP 7 SMB1 8 SMB2 *)
IdProto == << "HTTP", "STUN", "SSH", "GHOST", "RPC_TCP", "RPC_UDP", "SMB1", "SMB2" >>
ProtoOfId(i) == IF i >= 1 /\ i <= 8 THEN IdProto[i] ELSE "unknown-id"

(* joint byte classes: bytes that no row of the table and no signature position tells apart *)
Column(b) == [ s \in 1..SmackN |-> SmackNext[s][b + 1] ]
Lits(b)   == { << i, j >> \in (1..NSig) \X (1..MaxSigLen) : j <= Len(Sigs[i].pat) /\ Sigs[i].pat[j] = b }
ClassOf   == [ b \in 0..255 |-> << Column(b), Lits(b) >> ]
Reps      == { b \in 0..255 : \A c \in 0..(b - 1) : ClassOf[c] # ClassOf[b] }

VARIABLES ms,      \* matcher: state index (1-based) while undecided, 0 once latched
          mv,      \* matcher verdict: << >> or << protocol, bytes consumed >>
          alive,   \* reference: signatures still agreeing with the input
          rv,      \* reference verdict
          n,       \* bytes consumed
          wit,     \* a witness input (hidden from the state identity)
          bad      \* set once the two sides have disagreed (exploration of this branch stops)

vars == << ms, mv, alive, rv, n, wit, bad >>
View == << ms, mv, alive, rv, n, bad >>

None == << >>

Init == /\ ms = 1 /\ mv = None
        /\ alive = 1..NSig /\ rv = None
        /\ n = 0 /\ wit = << >> /\ bad = FALSE

(* reference side, one byte *)
RefAlive(c) == { s \in alive : Len(Sigs[s].pat) > n /\ (Sigs[s].pat[n + 1] = W \/ Sigs[s].pat[n + 1] = c) }
RefDone(c)  == { s \in RefAlive(c) : Len(Sigs[s].pat) = n + 1 /\ ~Sigs[s].end }
RefVerdict(c) ==
    IF rv # None THEN rv
    ELSE IF RefDone(c) = {} THEN None
    ELSE << Sigs[CHOOSE s \in RefDone(c) : \A t \in RefDone(c) : s <= t].proto, n + 1 >>

(* matcher side, one byte: entries are a next state index (>= 0, 0-based) or -(id) *)
MatchEntry(c) == SmackNext[ms][c + 1]
MatcherVerdict(c) ==
    IF mv # None THEN mv
    ELSE IF MatchEntry(c) < 0 THEN << ProtoOfId(-MatchEntry(c)), n + 1 >> ELSE None

Report(kind, w, a, b) == PrintT(<< "MISMATCH", kind, w, a, b >>)

Byte(c) ==
    /\ ~bad
    /\ mv = None \/ rv = None                      \* once both have latched (and agreed) nothing can change
    /\ LET nmv == MatcherVerdict(c)
           nrv == RefVerdict(c)
           w   == Append(wit, c)
       IN /\ mv' = nmv /\ rv' = nrv
          /\ ms' = IF mv # None \/ MatchEntry(c) < 0 THEN 0 ELSE MatchEntry(c) + 1
          /\ alive' = IF rv # None THEN {} ELSE RefAlive(c)
          /\ n' = IF n >= MaxSigLen + 1 THEN n ELSE n + 1       \* saturates once every signature is decided
          /\ wit' = w
          /\ bad' = (nmv # nrv)
          /\ (nmv # nrv => Report("stream", w, nmv, nrv))

(* end of input after the current prefix (datagram mode): compared, not stepped *)
EndMatcher == IF mv # None THEN mv
              ELSE IF SmackEnd[ms] # 0 THEN << ProtoOfId(SmackEnd[ms]), n >> ELSE None
EndRef ==
    IF rv # None THEN rv
    ELSE LET d == { s \in alive : Sigs[s].end /\ Len(Sigs[s].pat) = n } IN
         IF d = {} THEN None ELSE << Sigs[CHOOSE s \in d : \A t \in d : s <= t].proto, n >>

EndAgrees == bad \/ EndMatcher = EndRef

Next == \E c \in Reps : Byte(c)

Spec == Init /\ [][Next]_vars

(* invariants *)
StreamAgrees == ~bad
DatagramAgrees == EndAgrees

(* non-stopping variants used by the check: disagreements are printed, exploration goes on *)
ReportEnd == EndAgrees \/ Report("datagram", wit, EndMatcher, EndRef)
=============================================================================
