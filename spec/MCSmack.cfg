SPECIFICATION Spec
VIEW View
INVARIANT ReportEnd
CHECK_DEADLOCK FALSE
