SPECIFICATION TraceSpec
CONSTANT KnownKeys <- KnownKeysDef
POSTCONDITION TraceAccepted
CHECK_DEADLOCK FALSE
