-------------------------------- MODULE Dns ---------------------------------
(***************************************************************************)
(* DNS (property C14).  A query (QR=0) consisting only of IN/A questions   *)
(* over UDP/IPv4 is answered: same ID, opcode and RD, QR=1, the question   *)
(* section echoed byte for byte, exactly one IN/A answer per question      *)
(* owned by the queried name with RDATA = the IPv4 address the query was   *)
(* sent to, all section counts matching the records present.               *)
(***************************************************************************)
EXTENDS Integers, Sequences, FiniteSets, SequencesExt

DU16(b, o) == b[o + 1] * 256 + b[o + 2]

DnsId(p)      == DU16(p, 0)
DnsQR(p)      == p[3] \div 128
DnsOpcode(p)  == (p[3] \div 8) % 16
DnsRD(p)      == p[3] % 2
DnsQd(p)      == DU16(p, 4)
DnsAn(p)      == DU16(p, 6)
DnsNs(p)      == DU16(p, 8)
DnsAr(p)      == DU16(p, 10)

(* end offset of a name made of plain labels (length octets 1..63, total   *)
(* at most 255) starting at o, or -1 if it is truncated / not plain        *)
RECURSIVE NameEnd(_, _, _)
NameEnd(p, o, total) ==
    IF o + 1 > Len(p) THEN -1
    ELSE LET l == p[o + 1] IN
         IF l = 0 THEN (IF total + 1 <= 255 THEN o + 1 ELSE -1)
         ELSE IF l > 63 THEN -1
         ELSE NameEnd(p, o + 1 + l, total + 1 + l)

(* the implementation's reading of a name: everything up to the first NUL  *)
(* (looked for in the next 256 bytes first: a plain name is no longer)     *)
NulEnd(p, o) ==
    LET lim == IF o + 256 < Len(p) THEN o + 256 ELSE Len(p)
        z == { k \in (o + 1)..lim : p[k] = 0 }
    IN IF z # {} THEN CHOOSE k \in z : \A m \in z : k <= m
       ELSE LET y == { k \in (lim + 1)..Len(p) : p[k] = 0 } IN
            IF y = {} THEN -1 ELSE CHOOSE k \in y : \A m \in y : k <= m

(* does the name [o, e) contain a zero byte before its terminator?  *)
PlainName(p, o) == NameEnd(p, o, 0) # -1 /\ NameEnd(p, o, 0) = NulEnd(p, o)

(* walk n questions from offset o: [st, q, end] with st "ok" | "trunc" (the message *)
(* ends inside the declared questions) | "odd" (a name is not made of plain labels),  *)
(* q the sequence of <<name start, name end, type, class>>, end the offset reached   *)
(* label walk telling "ran off the end of the message" (-1) from "not made of plain labels" (-2: *)
(* a compression pointer, a label type, a name longer than 255)                                  *)
RECURSIVE NameWalk(_, _, _)
NameWalk(p, o, total) ==
    IF o + 1 > Len(p) THEN -1
    ELSE LET l == p[o + 1] IN
         IF l = 0 THEN (IF total + 1 <= 255 THEN o + 1 ELSE -2)
         ELSE IF l > 63 THEN -2
         ELSE NameWalk(p, o + 1 + l, total + 1 + l)

QStep(p, w) ==
    IF w.st # "ok" THEN w
    ELSE LET o == w.end
             e == NameWalk(p, o, 0)
         IN IF e = -1 \/ (e >= 0 /\ e + 4 > Len(p)) THEN [ w EXCEPT !.st = "trunc" ]     \* the message ends inside this question
            ELSE IF e = -2 \/ e # NulEnd(p, o) THEN [ w EXCEPT !.st = "odd" ]            \* pointer, odd label, NUL inside a label
            ELSE [ st |-> "ok", q |-> Append(w.q, << o, e, DU16(p, e), DU16(p, e + 2) >>), end |-> e + 4 ]

Questions(p, o, n, acc) ==
    FoldLeft(LAMBDA w, i : QStep(p, w), [ st |-> "ok", q |-> acc, end |-> o ], [ i \in 1..n |-> i ])

QList(p) == Questions(p, 12, DnsQd(p), << >>)

QCap == 1024       \* questions walked (more: unspecified)
QListC(p) == IF Len(p) >= 12 /\ DnsQd(p) <= QCap THEN QList(p) ELSE [ st |-> "odd", q |-> << >>, end |-> 12 ]

DnsTruncatedW(p, w) == Len(p) < 12 \/ (DnsQd(p) > 0 /\ DnsQd(p) <= QCap /\ w.st = "trunc")
DnsTruncated(p) == DnsTruncatedW(p, QListC(p))

(* clean query: only IN/A questions, plain names, nothing else in the message *)
DnsCleanQueryW(p, w) ==
    /\ Len(p) >= 12
    /\ DnsQR(p) = 0
    /\ DnsQd(p) >= 1 /\ DnsQd(p) <= QCap
    /\ DnsAn(p) = 0 /\ DnsNs(p) = 0 /\ DnsAr(p) = 0
    /\ w.st = "ok"
    /\ w.end = Len(p)                                          \* message ends after the last question
    /\ 2 * Len(p) + 10 * DnsQd(p) + 16 <= 65535                 \* the answer fits a UDP datagram in an IPv4 packet
    /\ \A i \in 1..Len(w.q) : w.q[i][3] = 1 /\ w.q[i][4] = 1    \* type A, class IN
DnsCleanQuery(p) == DnsCleanQueryW(p, QListC(p))

(* a well-delimited message one of whose questions is not IN/A *)
DnsHasOtherQuestionW(p, w) ==
    /\ Len(p) >= 12 /\ DnsQd(p) >= 1 /\ DnsQd(p) <= QCap
    /\ w.st = "ok"
    /\ \E i \in 1..Len(w.q) : w.q[i][3] # 1 \/ w.q[i][4] # 1
DnsHasOtherQuestion(p) == DnsHasOtherQuestionW(p, QListC(p))

DnsIsResponse(p) == Len(p) >= 12 /\ DnsQR(p) = 1

(* walk the answers of reply r from offset o: each must be owned by the corresponding *)
(* question's name (same bytes, or a compression pointer to it); a fold over the       *)
(* questions carrying the offset reached (-1 = failed)                                 *)
AnswerStep(p, r, dst, o, qi) ==
    IF o = -1 THEN -1
    ELSE LET qs == qi[1]
             qe == qi[2]
             nlen == qe - qs
             tgt == IF o + 2 <= Len(r) /\ r[o + 1] \div 64 = 3 THEN (r[o + 1] % 64) * 256 + r[o + 2] ELSE -1
             (* a compression pointer to this question's name - or to the same name in another question *)
             ptr == tgt # -1 /\ (tgt = qs \/ (tgt >= 12 /\ tgt + nlen <= Len(p) /\ tgt < qs
                                                /\ SubSeq(p, tgt + 1, tgt + nlen) = SubSeq(p, qs + 1, qe)))
             same == o + nlen <= Len(r) /\ SubSeq(r, o + 1, o + nlen) = SubSeq(p, qs + 1, qe)
             ne == IF same THEN o + nlen ELSE IF ptr THEN o + 2 ELSE -1
         IN IF ne = -1 \/ ne + 10 + 4 > Len(r) THEN -1
            ELSE IF /\ DU16(r, ne) = 1 /\ DU16(r, ne + 2) = 1          \* A, IN
                    /\ DU16(r, ne + 8) = 4                             \* RDLENGTH
                    /\ SubSeq(r, ne + 11, ne + 14) = dst
                 THEN ne + 14 ELSE -1

(* a resource record of any type at offset o: offset after it, or -1 *)
RECURSIVE RrNameEnd(_, _, _)
RrNameEnd(r, o, n) ==
    IF n > 130 \/ o + 1 > Len(r) THEN -1
    ELSE IF r[o + 1] = 0 THEN o + 1
    ELSE IF r[o + 1] \div 64 = 3 THEN (IF o + 2 <= Len(r) THEN o + 2 ELSE -1)
    ELSE IF r[o + 1] > 63 THEN -1
    ELSE RrNameEnd(r, o + 1 + r[o + 1], n + 1)
RrStep(r, o) ==
    IF o = -1 THEN -1
    ELSE LET ne == RrNameEnd(r, o, 0) IN
         IF ne = -1 \/ ne + 10 > Len(r) \/ ne + 10 + DU16(r, ne + 8) > Len(r) THEN -1
         ELSE ne + 10 + DU16(r, ne + 8)

(* the answers, then as many further records as the authority and additional counts announce, *)
(* and nothing else: "all section counts match the records present"                           *)
AnswersOK(p, r, q, i, o, dst) ==
    LET a == FoldLeft(LAMBDA oo, qi : AnswerStep(p, r, dst, oo, qi), o, SubSeq(q, i, Len(q)))
        extra == DnsNs(r) + DnsAr(r)
    IN IF extra = 0 THEN a = Len(r)
       ELSE extra <= 64 /\ FoldLeft(LAMBDA oo, k : RrStep(r, oo), a, [ k \in 1..extra |-> k ]) = Len(r)

DnsAnswerFails(p, r, dst) ==
    IF Len(r) < 12 THEN { "dns-header" }
    ELSE LET w == QListC(p)
             q == w.q
             qend == w.end
         IN
    (IF DnsId(r) = DnsId(p) THEN {} ELSE { "dns-id" })
    \cup (IF DnsQR(r) = 1 THEN {} ELSE { "dns-qr" })
    \cup (IF DnsOpcode(r) = DnsOpcode(p) /\ DnsRD(r) = DnsRD(p) THEN {} ELSE { "dns-opcode-rd" })
    \cup (IF DnsQd(r) = DnsQd(p) /\ DnsAn(r) = DnsQd(p) THEN {} ELSE { "dns-section-counts" })
    \cup (IF Len(r) >= qend /\ SubSeq(r, 13, qend) = SubSeq(p, 13, qend) THEN {} ELSE { "dns-question-echo" })
    \cup (IF Len(r) >= qend /\ AnswersOK(p, r, q, 1, qend, dst) THEN {} ELSE { "dns-answers" })
=============================================================================
