------------------------------ MODULE MCStack ------------------------------
(***************************************************************************)
(* Bounded model checking of the reference responder (modules Stack, Ref). *)
(*                                                                         *)
(* The frame domain (concrete frames, file named by FRAMES), the cookies   *)
(* of the model flows (COOKIES; learnt from the implementation, so that    *)
(* every behaviour of this model can be replayed into it) and the          *)
(* configuration (MCCFG) are given as JSON.  TLC explores every reachable  *)
(* connection-table state and, in each, every frame of the domain, and     *)
(* checks that the reference observation violates no clause of C01 - C20   *)
(* (NoViolation), that the outcome classifier is total, and the frame      *)
(* conditions of C08 / C09 (asserted on every transition).                 *)
(* Each distinct state is printed with the frame sequence that reached it: *)
(* the check replays these behaviours on the real code.                    *)
(***************************************************************************)
EXTENDS Ref, Json, IOUtils

FrameRecs == ndJsonDeserialize(IOEnv.FRAMES)            \* records [req, uaddr]
NFrames == Len(FrameRecs)
UaddrTableDef == [ b \in { FrameRecs[i].req : i \in 1..NFrames } |->
                     FrameRecs[CHOOSE i \in 1..NFrames : FrameRecs[i].req = b].uaddr ]

CookieRecs == ndJsonDeserialize(IOEnv.COOKIES)           \* records [flow, ck]
InitCk == [ f \in { CookieRecs[i].flow : i \in 1..Len(CookieRecs) } |->
              CookieRecs[CHOOSE i \in 1..Len(CookieRecs) : CookieRecs[i].flow = f].ck ]

CfgRec == ndJsonDeserialize(IOEnv.MCCFG)[1]
MCCfg == [ mac |-> CfgRec.mac, hasself |-> CfgRec.hasself, self |-> { CfgRec.self[i] : i \in 1..Len(CfgRec.self) },
           hasdeny |-> CfgRec.hasdeny, deny |-> { CfgRec.deny[i] : i \in 1..Len(CfgRec.deny) },
           key |-> CfgRec.key, logger |-> CfgRec.logger ]

KnownKeysDef == {}            \* the reference model has no known deviations

VARIABLE hist                 \* the frame indices taken so far (hidden from the state identity)

mvars == << svars, hist >>
View == svars

MaxDepth == IF "MCDEPTH" \in DOMAIN IOEnv THEN atoi(IOEnv.MCDEPTH) ELSE 4
MaxStream == 48

MCInit ==
    /\ cfg = MCCfg /\ tcb = EmptyFn /\ ck = InitCk /\ ckx = {}
    /\ viol = {} /\ kf = {} /\ last = "init" /\ groups = EmptyFn /\ pairs = EmptyFn /\ segs = EmptyFn
    /\ byck = EmptyFn /\ coll = EmptyFn /\ fmt = {}
    /\ hist = << >>

(* frame conditions, C08 / C09: a step changes at most the control block of the frame's  *)
(* own flow, creates one only for a first segment with the valid acknowledgement,        *)
(* and never removes or rebinds anything                                                 *)
FrameConditions(b) ==
    LET o == ExpectL2(b) IN
    /\ DOMAIN tcb \subseteq DOMAIN tcb'
    /\ \A f \in DOMAIN tcb : tcb'[f] = tcb[f] \/ (o.kind = "data" /\ f = TcpCtx(b).flow)
    /\ (DOMAIN tcb' # DOMAIN tcb) =>
          /\ o.name = "TcpDataFirstValid"
          /\ DOMAIN tcb' = DOMAIN tcb \cup { TcpCtx(b).flow }
    /\ ck' = ck /\ ckx' = ckx

(* the outcome classifier is total and deterministic: ExpectL2 names exactly one outcome *)
Total(b) == ExpectL2(b).ans \in { "must", "mustnot", "any" }

MCNext ==
    \E i \in 1..NFrames :
        LET b == FrameRecs[i].req IN
        /\ Len(hist) < MaxDepth
        /\ Handle(b, RefObs(b))
        /\ hist' = Append(hist, i)
        /\ Assert(FrameConditions(b), << "frame condition violated by frame", i >>)
        /\ Assert(Total(b), << "outcome classifier not total on frame", i >>)

MCSpec == MCInit /\ [][MCNext]_mvars

Bounded == \A f \in DOMAIN tcb : Len(tcb[f].stream) <= MaxStream

NoViolation == viol = {}

(* every distinct state, with a behaviour reaching it and the outcome action last taken *)
Export == PrintT(<< "BEHAVIOUR", hist, last >>)
=============================================================================
