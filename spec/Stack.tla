------------------------------- MODULE Stack -------------------------------
(***************************************************************************)
(* masscanned as a state machine.                                          *)
(*                                                                         *)
(* One action shape: Handle(b, obs) - the responder receives frame b (a    *)
(* byte sequence) and is observed to answer with obs (silence, one reply   *)
(* frame, or an abort), together with its event log and the size of its    *)
(* connection table.  The module defines                                   *)
(*   ExpectL2(b)    the reference outcome of b in the current state,       *)
(*   Judge(b, obs)  the set of property clauses obs violates,              *)
(*   After(b, obs)  the next connection state,                             *)
(*   RefObs(b)      the observation the reference model itself produces.   *)
(* Model checking runs Handle(b, RefObs(b)) over a frame domain and checks *)
(* that Judge is empty (the model satisfies the properties); trace         *)
(* validation runs Handle(b, observed) over recorded executions of the     *)
(* real code (module Trace).  Property clauses are written from the        *)
(* property statements; each is tagged <<property id, clause name>>.       *)
(*                                                                         *)
(* State:                                                                  *)
(*   cfg   current configuration (module Config)                           *)
(*   tcb   validated flows: flow |-> [stream, done]  (the accepted data    *)
(*         bytes of the flow so far, and whether its first request has     *)
(*         been answered)                                                  *)
(*   ck    SYN-cookie bindings: flow |-> <<hi16, lo16>>.  The cookie is an *)
(*         uninterpreted function of (flow, key): the first observation    *)
(*         binds it, every later one must agree (property C06).            *)
(*   ckx   exclusions learnt from rejected segments on unbound flows       *)
(*   byck  cookie |-> the first flow observed with it (current key)        *)
(*   coll  pairs of distinct flows observed with equal cookies, with the   *)
(*         keys under which that happened (kept across reconfigurations)   *)
(*   viol  clauses violated by the last step;  kf  known findings hit      *)
(*   groups  C19: for each payload group (the same application payload     *)
(*         sent under several port pairs / IP versions), how its first     *)
(*         member was answered, in canonical form                          *)
(*   pairs   C08: the same frame run once after only the accepted data     *)
(*         segments of its own flow and once inside the full interleaved   *)
(*         history; how it was answered the first time                     *)
(*   segs    C11: per byte stream sent under several segmentations (the    *)
(*         harness numbers them, aux.seg): how far some member got without *)
(*         an answer, and where / with what the first answer came          *)
(***************************************************************************)
EXTENDS Wire, Config, App, TLC

VARIABLES cfg, tcb, ck, ckx, viol, kf, last, groups, pairs, byck, coll, fmt, segs

svars == << cfg, tcb, ck, ckx, viol, kf, last, groups, pairs, byck, coll, fmt, segs >>

(* Known deviations of the implementation (KNOWN_FINDINGS.txt), as keys *)
CONSTANT KnownKeys

NoRep == << >>
NoAux == [ inflated |-> -1, uaddr |-> << >>, chain |-> 0, grp |-> 0, pair |-> 0 ]
Silence(log, n) == [ kind |-> "silence", rep |-> NoRep, log |-> log, tcb |-> n, aux |-> NoAux ]

(***************************************************************************)
(* Flow identity and TCP policy                                            *)
(***************************************************************************)
FlowOf(ver, src, sport, dst, dport) == << ver, src, sport, dst, dport >>

(* C06: SYN is answered iff the other flags are within {PSH,URG,CWR,ECE}   *)
(* and CWR, ECE are not both set.                                          *)
SynPolicy(fl) ==
    /\ HasFlag(fl, F_SYN)
    /\ ~HasFlag(fl, F_FIN) /\ ~HasFlag(fl, F_RST) /\ ~HasFlag(fl, F_ACK) /\ ~HasFlag(fl, F_NS)
    /\ ~(HasFlag(fl, F_CWR) /\ HasFlag(fl, F_ECE))

IsData(fl) == HasFlag(fl, F_PSH) /\ HasFlag(fl, F_ACK)

(***************************************************************************)
(* Reference outcome of a frame down to layer 4.                           *)
(*   name    the outcome action                                            *)
(*   layers  the layers the frame reaches (for the event log, C20)         *)
(*   ans     "must" reply | "mustnot" reply | "any" (statements silent)    *)
(*   kind    which reply relation applies                                  *)
(***************************************************************************)
Out(name, layers, ans, kind) ==
    [ name |-> name, layers |-> layers, ans |-> ans, kind |-> kind ]

L3Ctx(b) ==
    IF EthType(b) = ETH_IP4
    THEN [ ver |-> 4, src |-> Ip4Src(b), dst |-> Ip4Dst(b), proto |-> Ip4Proto(b),
           s |-> Ip4PayStart(b), e |-> Ip4PayEnd(b), l3 |-> "ipv4" ]
    ELSE [ ver |-> 6, src |-> Ip6Src(b), dst |-> Ip6Dst(b), proto |-> Ip6Nh(b),
           s |-> Ip6PayStart(b), e |-> Ip6PayEnd(b), l3 |-> "ipv6" ]

TcpCtx(b) ==
    LET x == L3Ctx(b) IN
    [ ver |-> x.ver, src |-> x.src, dst |-> x.dst, s |-> x.s, e |-> x.e,
      sport |-> TcpSport(b, x.s), dport |-> TcpDport(b, x.s),
      flags |-> TcpFlags(b, x.s), seq |-> TcpSeq(b, x.s), ack |-> TcpAck(b, x.s),
      ps |-> TcpPayStart(b, x.s, x.e), pe |-> x.e,
      flow |-> FlowOf(x.ver, x.src, TcpSport(b, x.s), x.dst, TcpDport(b, x.s)) ]

UdpCtx(b) ==
    LET x == L3Ctx(b) IN
    [ ver |-> x.ver, src |-> x.src, dst |-> x.dst, s |-> x.s, e |-> x.e,
      sport |-> UdpSport(b, x.s), dport |-> UdpDport(b, x.s),
      ps |-> x.s + 8, pe |-> x.e ]

Validated(f)  == f \in DOMAIN tcb
Bound(f)      == f \in DOMAIN ck
ValidAck(f, ack) == Bound(f) /\ ack = Add32(ck[f], 1)

ExpectTcp(b, l3) ==
    LET t  == TcpCtx(b)
        ly == << "eth", l3, "tcp" >>
        fl == t.flags
    IN
    IF IsData(fl) THEN
        (* PSH|ACK together with RST or SYN: C07 allows an answer behind a valid cookie, C12 / C06 *)
        (* say such segments are not answered - either way is accepted                              *)
        LET plain == ~HasFlag(fl, F_RST) /\ ~HasFlag(fl, F_SYN) IN
        IF Validated(t.flow) THEN
            (* reference model: a validated flow is answered; the statements pin *)
            (* this down only for segments that still acknowledge cookie+1       *)
            Out("TcpDataKnownFlow", ly, IF ValidAck(t.flow, t.ack) /\ plain THEN "must" ELSE "any", "data")
        ELSE IF ~Bound(t.flow) THEN
            IF << t.flow, Sub1_32(t.ack) >> \in ckx
            THEN Out("TcpDataBadCookie", ly, "mustnot", "none")
            ELSE Out("TcpDataUnboundCookie", ly, "any", "data")
        ELSE IF ValidAck(t.flow, t.ack) THEN Out("TcpDataFirstValid", ly, IF plain THEN "must" ELSE "any", "data")
        ELSE Out("TcpDataBadCookie", ly, "mustnot", "none")
    ELSE IF fl = F_ACK THEN
        (* "bare": without payload; an ACK carrying data is not spoken of *)
        IF t.ps = t.pe THEN Out("TcpAckSilent", ly, "mustnot", "none") ELSE Out("TcpAckWithData", ly, "any", "other")
    ELSE IF HasFlag(fl, F_RST) THEN Out("TcpRstSilent", ly, "mustnot", "none")
    ELSE IF fl = F_SYN + F_ACK THEN Out("TcpSynAckSilent", ly, "mustnot", "none")
    ELSE IF fl = F_FIN + F_ACK THEN
        Out("TcpFinAck", ly, IF t.ps = t.pe THEN "must" ELSE "any", "finack")
    ELSE IF SynPolicy(fl) THEN Out("TcpSynAck", ly, "must", "synack")
    ELSE IF HasFlag(fl, F_SYN) THEN Out("TcpSynRefused", ly, "any", "refused")      \* C06: not with a SYN|ACK (a RST would do)
    ELSE Out("TcpOtherFlags", ly, "any", "other")

ExpectIp4(b) ==
    IF ~Ip4OK(b) THEN Out("Ip4Short", << "eth" >>, "mustnot", "none")
    ELSE IF ~Handled(cfg, Ip4Dst(b)) THEN Out("Ip4NotSelf", << "eth", "ipv4" >>, "mustnot", "none")
    ELSE IF Denied(cfg, Ip4Src(b)) THEN Out("Ip4Denied", << "eth", "ipv4" >>, "mustnot", "none")
    ELSE LET s == Ip4PayStart(b)  e == Ip4PayEnd(b) IN
    CASE Ip4Proto(b) = PROTO_ICMP ->
            IF ~IcmpOK(s, e) THEN Out("Icmp4Short", << "eth", "ipv4" >>, "mustnot", "none")
            ELSE IF IcmpType(b, s) = 8 /\ IcmpCode(b, s) = 0
                 THEN Out("Icmp4Echo", << "eth", "ipv4", "icmpv4" >>, "must", "echo4")
                 ELSE Out("Icmp4Other", << "eth", "ipv4", "icmpv4" >>, "mustnot", "none")
      [] Ip4Proto(b) = PROTO_TCP ->
            IF ~TcpOK(s, e) THEN Out("Tcp4Short", << "eth", "ipv4" >>, "mustnot", "none")
            ELSE ExpectTcp(b, "ipv4")
      [] Ip4Proto(b) = PROTO_UDP ->
            IF ~UdpOK(s, e) THEN Out("Udp4Short", << "eth", "ipv4" >>, "mustnot", "none")
            ELSE Out("Udp", << "eth", "ipv4", "udp" >>, "any", "udp")
      [] OTHER -> Out("Ip4ProtoOther", << "eth", "ipv4" >>, "mustnot", "none")

(* IPv6.  Only neighbour discovery may be addressed to something that is   *)
(* not on the self-IP list (solicited-node multicast); an echo reply would  *)
(* be sourced from the address asked, which C02 forbids.                    *)
ExpectIp6(b) ==
    IF ~Ip6OK(b) THEN Out("Ip6Short", << "eth" >>, "mustnot", "none")
    ELSE LET s == Ip6PayStart(b)  e == Ip6PayEnd(b)
             isNS == Ip6Nh(b) = PROTO_ICMP6 /\ e > s /\ IcmpType(b, s) = 135
    IN
    IF ~Handled(cfg, Ip6Dst(b)) /\ ~isNS THEN Out("Ip6NotSelf", << "eth", "ipv6" >>, "mustnot", "none")
    ELSE IF Denied(cfg, Ip6Src(b)) THEN Out("Ip6Denied", << "eth", "ipv6" >>, "mustnot", "none")
    ELSE
    CASE Ip6Nh(b) = PROTO_ICMP6 ->
            IF ~IcmpOK(s, e) THEN Out("Icmp6Short", << "eth", "ipv6" >>, "mustnot", "none")
            ELSE IF IcmpCode(b, s) # 0 THEN Out("Icmp6CodeNZ", << "eth", "ipv6", "icmpv6" >>, "mustnot", "none")
            ELSE IF IcmpType(b, s) = 135 THEN
                 IF ~NsOK(s, e) THEN Out("NsShort", << "eth", "ipv6", "icmpv6" >>, "mustnot", "none")
                 ELSE IF ~Handled(cfg, NsTarget(b, s))
                      THEN Out("NsNotHandled", << "eth", "ipv6", "icmpv6" >>, "mustnot", "none")
                      ELSE Out("NsAdvert", << "eth", "ipv6", "icmpv6" >>, "must", "na")
            ELSE IF IcmpType(b, s) = 128 THEN Out("Icmp6Echo", << "eth", "ipv6", "icmpv6" >>, "must", "echo6")
            ELSE Out("Icmp6Other", << "eth", "ipv6", "icmpv6" >>, "mustnot", "none")
      [] Ip6Nh(b) = PROTO_TCP ->
            IF ~TcpOK(s, e) THEN Out("Tcp6Short", << "eth", "ipv6" >>, "mustnot", "none")
            ELSE ExpectTcp(b, "ipv6")
      [] Ip6Nh(b) = PROTO_UDP ->
            IF ~UdpOK(s, e) THEN Out("Udp6Short", << "eth", "ipv6" >>, "mustnot", "none")
            ELSE Out("Udp", << "eth", "ipv6", "udp" >>, "any", "udp")
      [] OTHER -> Out("Ip6ProtoOther", << "eth", "ipv6" >>, "mustnot", "none")

(* A well-formed ARP request is Ethernet/IPv4: htype 1, ptype 0x0800, 6, 4 *)
ArpWellFormed(b) == ArpHType(b) = 1 /\ ArpPType(b) = ETH_IP4 /\ ArpHLen(b) = 6 /\ ArpPLen(b) = 4

(* group MACs derived from the addresses the frame itself addresses (IP destination, ARP / NS target) *)
OwnGroupMacs(b) ==
    IF Len(b) < 14 THEN {}
    ELSE IF EthType(b) = ETH_IP4 /\ Ip4OK(b) THEN { McastMac4(Ip4Dst(b)) }
    ELSE IF EthType(b) = ETH_ARP /\ ArpOK(b) THEN { McastMac4(ArpTpa(b)) }
    ELSE IF EthType(b) = ETH_IP6 /\ Ip6OK(b) THEN
         { McastMac6(Ip6Dst(b)) } \cup (IF Ip6Nh(b) = PROTO_ICMP6 /\ Len(b) >= 54 + 24 THEN { McastMac6(NsTarget(b, 54)) } ELSE {})
    ELSE {}

ExpectAfterMac(b) ==
    IF EthType(b) = ETH_ARP THEN
        IF ~ArpOK(b) THEN Out("ArpShort", << "eth" >>, "mustnot", "none")
        ELSE IF ArpOp(b) # 1 THEN Out("ArpNotRequest", << "eth", "arp" >>, "mustnot", "none")
        ELSE IF ~Handled(cfg, ArpTpa(b)) THEN Out("ArpNotHandled", << "eth", "arp" >>, "mustnot", "none")
        ELSE Out("ArpReply", << "eth", "arp" >>, IF ArpWellFormed(b) THEN "must" ELSE "any", "arp")
    ELSE IF EthType(b) = ETH_IP4 THEN ExpectIp4(b)
    ELSE IF EthType(b) = ETH_IP6 THEN ExpectIp6(b)
    ELSE Out("EthTypeOther", << "eth" >>, "mustnot", "none")

ExpectL2(b) ==
    IF ~EthOK(b) THEN Out("EthShort", << >>, "mustnot", "none")
    ELSE IF EthDst(b) \notin Auth(cfg) THEN
         (* without a self-IP list every address is handled: a group MAC derived from the address the *)
         (* frame itself asks for is then "derived from a handled IP address" - accepting the frame is *)
         (* allowed, not required: the usual expectation, but never a "must"                           *)
         IF ~HasSelf(cfg) /\ EthDst(b) \in OwnGroupMacs(b)
         THEN LET o == ExpectAfterMac(b) IN [ o EXCEPT !.ans = IF o.ans = "must" THEN "any" ELSE o.ans ]
         ELSE Out("EthForeignMac", << "eth" >>, "mustnot", "none")
    ELSE ExpectAfterMac(b)

(***************************************************************************)
(* Application layer: what the reference dispatcher says about the payload *)
(***************************************************************************)
AppCtxUdp(b) ==
    LET u == UdpCtx(b) IN
    [ transport |-> "udp", ver |-> u.ver, src |-> u.src, dst |-> u.dst,
      sport |-> u.sport, dport |-> u.dport, nbt |-> TRUE, over |-> FALSE ]
AppCtxTcp(b) ==
    LET t == TcpCtx(b) IN
    [ transport |-> "tcp", ver |-> t.ver, src |-> t.src, dst |-> t.dst,
      sport |-> t.sport, dport |-> t.dport,
      nbt  |-> IF t.flow \in DOMAIN tcb THEN tcb[t.flow].nbt ELSE TRUE,     \* every earlier segment: one NetBIOS message
      over |-> IF t.flow \in DOMAIN tcb THEN tcb[t.flow].over ELSE FALSE ]  \* the stream outgrew what the model keeps

UdpPayload(b) == LET u == UdpCtx(b) IN Bytes(b, u.ps, u.pe)
TcpPayload(b) == LET t == TcpCtx(b) IN Bytes(b, t.ps, t.pe)

StreamBefore(f) == IF Validated(f) THEN tcb[f].stream ELSE << >>
DoneBefore(f)   == IF Validated(f) THEN tcb[f].done ELSE FALSE

(***************************************************************************)
(* Reply relations (properties C02 - C07), each a set of failed clauses    *)
(***************************************************************************)
V(prop, tag, ok) == IF ok THEN {} ELSE { << prop, tag >> }

(* C03, Ethernet *)
MirrorEth(b, r) ==
    V("C03", "eth-src-is-own-mac", EthSrc(r) = cfg.mac)
    \cup V("C03", "eth-dst-is-asker", EthDst(r) = EthSrc(b))
    \cup V("C03", "same-ethertype", EthType(r) = EthType(b))

(* C03 + C02 at the IP layer; srcWanted is the identity that was asked *)
MirrorIp(b, r, srcWanted) ==
    IF EthType(b) = ETH_IP4 THEN
        V("C03", "ip-src-is-identity-asked", Ip4Src(r) = srcWanted)
        \cup V("C03", "ip-dst-is-asker", Ip4Dst(r) = Ip4Src(b))
        \cup V("C03", "same-transport", Ip4Proto(r) = Ip4Proto(b))
        \cup V("C02", "reply-source-on-self-list", Handled(cfg, Ip4Src(r)))
    ELSE
        V("C03", "ip-src-is-identity-asked", Ip6Src(r) = srcWanted)
        \cup V("C03", "ip-dst-is-asker", Ip6Dst(r) = Ip6Src(b))
        \cup V("C03", "same-transport", Ip6Nh(r) = Ip6Nh(b))
        \cup V("C02", "reply-source-on-self-list", Handled(cfg, Ip6Src(r)))

(* Is the reply long enough for the relation at hand to be evaluated? *)
ReplyShape(b, r, minL4) ==
    /\ Len(r) >= 14
    /\ EthType(r) = EthType(b)
    /\ IF EthType(b) = ETH_ARP THEN Len(r) >= 42
       ELSE IF EthType(b) = ETH_IP4 THEN Len(r) >= 34 /\ Len(r) >= L4Start(r) + minL4
       ELSE Len(r) >= 54 + minL4

(* C05 ARP *)
ArpReplyOK(b, r) ==
    MirrorEth(b, r)
    \cup V("C05", "arp-ethernet-ipv4", ArpHType(r) = 1 /\ ArpPType(r) = ETH_IP4 /\ ArpHLen(r) = 6 /\ ArpPLen(r) = 4)
    \cup V("C05", "arp-op-reply", ArpOp(r) = 2)
    \cup V("C05", "arp-sender-mac", ArpSha(r) = cfg.mac)
    \cup V("C05", "arp-sender-ip-is-requested", ArpSpa(r) = ArpTpa(b))
    \cup V("C05", "arp-target-is-requester", ArpTha(r) = ArpSha(b) /\ ArpTpa(r) = ArpSpa(b))
    \cup V("C02", "advertised-address-on-self-list", Handled(cfg, ArpSpa(r)))

(* C05 echo (both versions): identifier, sequence number and data identical *)
EchoReplyOK(b, r) ==
    LET x  == L3Ctx(b)
        rs == L4Start(r)
    IN
    MirrorEth(b, r) \cup MirrorIp(b, r, x.dst)
    \cup V("C05", "echo-reply-type", IcmpType(r, rs) = (IF x.ver = 4 THEN 0 ELSE 129) /\ IcmpCode(r, rs) = 0)
    \cup V("C05", "echo-data-identical",
           /\ Len(r) - rs = x.e - x.s
           /\ EqRegion(b, x.s + 4, r, rs + 4, x.e - x.s - 4))

(* C05 neighbour advertisement *)
NaOK(b, r) ==
    LET x == L3Ctx(b) IN
    MirrorEth(b, r) \cup MirrorIp(b, r, NsTarget(b, x.s))
    \cup V("C05", "na-type", IcmpType(r, 54) = 136 /\ IcmpCode(r, 54) = 0)
    \cup IF Len(r) < 54 + 32 THEN { << "C05", "na-length" >> }
         ELSE V("C05", "na-solicited-override", Bit(U8(r, 58), 6) = 1 /\ Bit(U8(r, 58), 5) = 1)
              \cup V("C05", "na-target", Bytes(r, 62, 78) = NsTarget(b, x.s))
              \cup V("C05", "na-tlla-option",
                     \E o \in { 78 + 8 * k : k \in 0..8 } :
                        /\ o + 8 <= Len(r) /\ U8(r, o) = 2 /\ U8(r, o + 1) = 1 /\ Bytes(r, o + 2, o + 8) = cfg.mac
                        /\ \A j \in { 78 + 8 * k : k \in 0..8 } : j < o => U8(r, j + 1) = 1)      \* reached through 8-byte options
              \cup V("C02", "advertised-address-on-self-list", Handled(cfg, Bytes(r, 62, 78)))

MirrorTcpS(b, r, shifts) ==
    LET t == TcpCtx(b)  rs == L4Start(r) IN
    MirrorEth(b, r) \cup MirrorIp(b, r, t.dst)
    \cup V("C03", "ports-swapped",
           /\ TcpDport(r, rs) = t.sport
           /\ \E sh \in shifts : TcpSport(r, rs) = (t.dport + sh) % 65536)
MirrorTcp(b, r) == MirrorTcpS(b, r, { 0 })

(* C06: the cookie changes (up to a 2^-32 coincidence) when any input changes.  A       *)
(* coincidence is told from a structural failure by key variation: two distinct flows   *)
(* whose cookies are equal under three different keys (chance 2^-96) share the cookie   *)
(* because an input is ignored.                                                          *)
CollisionPartner(f, c) == IF c \in DOMAIN byck /\ byck[c] # f THEN << byck[c] >> ELSE << >>
PersistentCollision(f, c) ==
    LET p == CollisionPartner(f, c) IN
    /\ p # << >>
    /\ LET pr == { << p[1], f >>, << f, p[1] >> } \cap DOMAIN coll IN
       \E x \in pr : Cardinality(coll[x] \cup { cfg.key }) >= 3

(* the key is an input of the cookie as well: the same flow keeping one cookie under three *)
(* different keys (chance 2^-64) does not depend on it.  Remembered in `coll` under the    *)
(* flow paired with the cookie value.                                                     *)
SelfKey(f, c) == << f, << c >> >>
SameUnderThreeKeys(f, c) ==
    SelfKey(f, c) \in DOMAIN coll /\ Cardinality(coll[SelfKey(f, c)] \cup { cfg.key }) >= 3

(* C06 *)
SynAckOK(b, r) ==
    LET t == TcpCtx(b)  rs == L4Start(r) IN
    MirrorTcp(b, r)
    \cup V("C06", "flags-exactly-syn-ack", TcpFlags(r, rs) = F_SYN + F_ACK)
    \cup V("C06", "ack-is-seq-plus-1", TcpAck(r, rs) = Add32(t.seq, 1))
    \cup V("C06", "no-payload", Len(r) = TcpDataStartR(r))
    \cup V("C06", "cookie-depends-on-every-input", ~PersistentCollision(t.flow, TcpSeq(r, rs)))
    \cup V("C06", "cookie-depends-on-the-key", ~SameUnderThreeKeys(t.flow, TcpSeq(r, rs)))
    \cup (IF Bound(t.flow)
          THEN V("C06", "cookie-deterministic", TcpSeq(r, rs) = ck[t.flow])
          ELSE V("C07", "cookie-consistent-with-earlier-rejection",
                 << t.flow, TcpSeq(r, rs) >> \notin ckx))

(* C07 *)
FinAckOK(b, r) ==
    LET t == TcpCtx(b)  rs == L4Start(r) IN
    MirrorTcp(b, r)
    \cup (IF t.ps # t.pe THEN {}          \* a FIN|ACK carrying data: the statements speak of the bare one only
          ELSE V("C07", "finack-flags", TcpFlags(r, rs) = F_FIN + F_ACK)
               \cup V("C07", "finack-ack-is-seq-plus-1", TcpAck(r, rs) = Add32(t.seq, 1))
               \cup V("C07", "finack-seq-is-peer-ack", TcpSeq(r, rs) = t.ack))

DataReplyOK(b, r) ==
    LET t == TcpCtx(b)  rs == L4Start(r)
        hasData == Len(r) > TcpDataStartR(r)
    IN
    MirrorTcpS(b, r, AppPortShift("tcp", StreamBefore(t.flow), TcpPayload(b)))
    \cup (IF hasData /\ RefId(AppMsg("tcp", StreamBefore(t.flow), TcpPayload(b)), FALSE) = "STUN"
          THEN LET sh == AppPortShift("tcp", StreamBefore(t.flow), TcpPayload(b)) IN
               IF sh = { 1 } THEN V("C15", "change-port-answered-from-the-next-port", TcpSport(r, rs) = (t.dport + 1) % 65536)
               ELSE IF sh = { 0 } THEN V("C15", "answered-from-the-contacted-port", TcpSport(r, rs) = t.dport)
               ELSE V("C15", "answered-from-the-contacted-or-the-next-port",
                      \E d \in sh : TcpSport(r, rs) = (t.dport + d) % 65536)
          ELSE {})
    \cup V("C07", "data-reply-has-ack", HasFlag(TcpFlags(r, rs), F_ACK))
    \cup V("C07", "psh-iff-application-data", HasFlag(TcpFlags(r, rs), F_PSH) <=> hasData)
    \cup V("C07", "seq-is-peer-ack", TcpSeq(r, rs) = t.ack)
    \cup V("C07", "ack-is-seq-plus-len", TcpAck(r, rs) = Add32(t.seq, t.pe - t.ps))

UdpReplyOK(b, r) ==
    LET u == UdpCtx(b)  rs == L4Start(r)
    IN
    MirrorEth(b, r) \cup MirrorIp(b, r, u.dst)
    \cup V("C03", "ports-swapped",
           /\ UdpDport(r, rs) = u.sport
           /\ \E sh \in AppPortShift("udp", << >>, UdpPayload(b)) : UdpSport(r, rs) = (u.dport + sh) % 65536)
    \cup (IF AppPortShift("udp", << >>, UdpPayload(b)) = { 1 }
          THEN V("C15", "change-port-answered-from-the-next-port", UdpSport(r, rs) = (u.dport + 1) % 65536)
          ELSE IF AppPortShift("udp", << >>, UdpPayload(b)) = { 0 } /\ RefId(UdpPayload(b), TRUE) = "STUN"
          THEN V("C15", "answered-from-the-contacted-port", UdpSport(r, rs) = u.dport)
          ELSE IF RefId(UdpPayload(b), TRUE) = "STUN"
          THEN V("C15", "answered-from-the-contacted-or-the-next-port",
                 \E sh \in AppPortShift("udp", << >>, UdpPayload(b)) : UdpSport(r, rs) = (u.dport + sh) % 65536)
          ELSE {})

AppReplyOf(r) == LET rs == L4Start(r) IN
    IF (IF EthType(r) = ETH_IP4 THEN Ip4Proto(r) ELSE Ip6Nh(r)) = PROTO_UDP
    THEN Bytes(r, rs + 8, Len(r)) ELSE Bytes(r, TcpDataStartR(r), Len(r))

(***************************************************************************)
(* The event log (C20).  obs.log is the sequence of events the loggers     *)
(* printed for this frame: [layer, verb, ms, md, is, id, tr, ps, pd, bad]. *)
(***************************************************************************)
RECURSIVE CountEv(_, _, _, _)
CountEv(log, i, layer, verbs) ==
    IF i > Len(log) THEN 0
    ELSE (IF log[i].layer = layer /\ log[i].verb \in verbs THEN 1 ELSE 0) + CountEv(log, i + 1, layer, verbs)

RECURSIVE FirstIdx(_, _, _, _)
FirstIdx(log, i, layer, verbs) ==
    IF i > Len(log) THEN 0
    ELSE IF log[i].layer = layer /\ log[i].verb \in verbs THEN i
    ELSE FirstIdx(log, i + 1, layer, verbs)

Terminal == { "send", "drop" }

(* values a printed field may take: the frame's (recv/drop), or the frame's *)
(* or the reply's on either side (send)                                     *)
FieldOK(printed, verb, mine, others) ==
    \/ printed = << >>
    \/ printed = mine
    \/ verb = "send" /\ printed \in others

(* Which fields a log format prints is its own business, but it is one format: a field that  *)
(* events of a layer have carried before (under this configuration) is not silently left out *)
(* of a later event of that layer.  fmt remembers << layer, field >>.                        *)
FieldsPrinted(log) ==
    UNION { { << log[i].layer, f >> : f \in
                { x \in { "ms", "md", "is", "id", "ps", "pd" } :
                    CASE x = "ms" -> log[i].ms # << >>  [] x = "md" -> log[i].md # << >>
                      [] x = "is" -> log[i].is # << >>  [] x = "id" -> log[i].id # << >>
                      [] x = "ps" -> log[i].ps # -1     [] x = "pd" -> log[i].pd # -1 } }
            : i \in { j \in 1..Len(log) : log[j].bad = 0 } }
Present(ev, hasIp, hasPorts) ==     \* judged for the fields that belong to the event's own layer (addresses from layer 3 on, ports at layer 4)
    /\ (ev.ms = << >> => << ev.layer, "ms" >> \notin fmt) /\ (ev.md = << >> => << ev.layer, "md" >> \notin fmt)
    /\ (ev.layer \notin { "eth", "app" } /\ hasIp =>
          /\ (ev.is = << >> => << ev.layer, "is" >> \notin fmt) /\ (ev.id = << >> => << ev.layer, "id" >> \notin fmt))
    /\ (ev.layer \in { "tcp", "udp" } /\ hasPorts =>
          /\ (ev.ps = -1 => << ev.layer, "ps" >> \notin fmt) /\ (ev.pd = -1 => << ev.layer, "pd" >> \notin fmt))

(* A printed pair (source, destination) is the frame's - or, on a send event, the reply's; *)
(* not a mixture of the two.  An absent field agrees with anything.                       *)
F1(printed, v) == printed = << >> \/ printed = v
PairOK(ps, pd, verb, fs, fd, hasRep, rs, rd) ==
    \/ (F1(ps, fs) /\ F1(pd, fd))
    \/ (verb = "send" /\ hasRep /\ F1(ps, rs) /\ F1(pd, rd))
    \/ (verb = "send" /\ hasRep /\ F1(ps, rd) /\ F1(pd, rs))       \* "peer first" (the implementation's ARP send lines)

LogFieldsOK(b, obs, ev) ==
    LET r == obs.rep
        hasRep == obs.kind = "reply" /\ Len(r) >= 14
    IN
    IF ev.layer = "app" THEN TRUE                  \* an event of a layer above the transport: not spoken of
    ELSE IF ev.layer = "arp" THEN
        IF ~ArpOK(b) THEN ev.is = << >> /\ ev.id = << >>       \* too short to hold addresses: none can be printed
        ELSE LET ra == hasRep /\ Len(r) >= 42 IN
             /\ \/ PairOK(ev.ms, ev.md, ev.verb, ArpSha(b), ArpTha(b), ra, IF ra THEN ArpSha(r) ELSE << >>, IF ra THEN ArpTha(r) ELSE << >>)
                \/ PairOK(ev.ms, ev.md, ev.verb, EthSrc(b), EthDst(b), hasRep, IF hasRep THEN EthSrc(r) ELSE << >>, IF hasRep THEN EthDst(r) ELSE << >>)
             /\ PairOK(ev.is, ev.id, ev.verb, ArpSpa(b), ArpTpa(b), ra, IF ra THEN ArpSpa(r) ELSE << >>, IF ra THEN ArpTpa(r) ELSE << >>)
    ELSE
        /\ PairOK(ev.ms, ev.md, ev.verb, EthSrc(b), EthDst(b), hasRep, IF hasRep THEN EthSrc(r) ELSE << >>, IF hasRep THEN EthDst(r) ELSE << >>)
        /\ IF ev.layer = "eth" THEN TRUE
           ELSE IF ~((EthType(b) = ETH_IP4 /\ Ip4OK(b)) \/ (EthType(b) = ETH_IP6 /\ Ip6OK(b)))
           THEN ev.is = << >> /\ ev.id = << >> /\ ev.ps = -1 /\ ev.pd = -1        \* no IP header to take addresses from
           ELSE LET x == L3Ctx(b)
                    ri == hasRep /\ ReplyShape(b, r, 0)
                    rsrc == IF ~ri THEN << >> ELSE IF x.ver = 4 THEN Ip4Src(r) ELSE Ip6Src(r)
                    rdst == IF ~ri THEN << >> ELSE IF x.ver = 4 THEN Ip4Dst(r) ELSE Ip6Dst(r)
                IN /\ PairOK(ev.is, ev.id, ev.verb, x.src, x.dst, ri, rsrc, rdst)
                   /\ (ev.tr = -1 \/ ev.tr = x.proto)
                   /\ IF ev.layer \in { "tcp", "udp" }
                      THEN LET sp == U16(b, x.s)  dp == U16(b, x.s + 2)
                               sh == (dp + 1) % 65536                  \* a STUN change-port answer leaves from the next port
                           IN \/ ((ev.ps = -1 \/ ev.ps = sp) /\ (ev.pd = -1 \/ ev.pd = dp))
                              \/ (ev.verb = "send" /\ (ev.ps = -1 \/ ev.ps = sp) /\ (ev.pd = -1 \/ ev.pd = sh))
                              \/ (ev.verb = "send" /\ (ev.ps = -1 \/ ev.ps \in { dp, sh }) /\ (ev.pd = -1 \/ ev.pd = sp))
                      ELSE TRUE

(* the layers a frame can be handed down through, from its EtherType and protocol numbers *)
NaturalChain(b) ==
    IF Len(b) < 14 THEN << "eth" >>
    ELSE IF EthType(b) = ETH_ARP THEN << "eth", "arp" >>
    ELSE IF EthType(b) = ETH_IP4 THEN
         (IF ~Ip4OK(b) THEN << "eth", "ipv4" >>
          ELSE CASE Ip4Proto(b) = PROTO_ICMP -> << "eth", "ipv4", "icmpv4" >>
                 [] Ip4Proto(b) = PROTO_TCP  -> << "eth", "ipv4", "tcp" >>
                 [] Ip4Proto(b) = PROTO_UDP  -> << "eth", "ipv4", "udp" >>
                 [] OTHER -> << "eth", "ipv4" >>)
    ELSE IF EthType(b) = ETH_IP6 THEN
         (IF ~Ip6OK(b) THEN << "eth", "ipv6" >>
          ELSE CASE Ip6Nh(b) = PROTO_ICMP6 -> << "eth", "ipv6", "icmpv6" >>
                 [] Ip6Nh(b) = PROTO_TCP   -> << "eth", "ipv6", "tcp" >>
                 [] Ip6Nh(b) = PROTO_UDP   -> << "eth", "ipv6", "udp" >>
                 [] OTHER -> << "eth", "ipv6" >>)
    ELSE << "eth" >>

(* Which layers a frame "reaches" before it is dropped is the implementation's business (a *)
(* filter may sit one layer higher or lower); what is logged must be an initial part of   *)
(* the natural chain, balanced and nested - and, when a reply is emitted, reach down to   *)
(* the layer that answered.                                                               *)
LogOK(b, obs, o) ==
    LET log == obs.log
        ch  == NaturalChain(b)
        logged == { log[i].layer : i \in 1..Len(log) } \ { "app" }
        ms  == { m \in 0..Len(ch) : logged = { ch[k] : k \in 1..m } }
        need == IF obs.kind = "reply" THEN Len(o.layers) ELSE IF Len(b) >= 14 THEN 1 ELSE 0
        n   == IF ms = {} THEN 0 ELSE CHOOSE m \in ms : TRUE
        ly  == ch
    IN
    IF cfg.logger = "none" THEN V("C20", "no-logger-no-events", Len(log) = 0)
    ELSE
    V("C20", "complete-lines", \A i \in 1..Len(log) : log[i].bad = 0)
    \cup V("C20", "layers-reached", ms # {} /\ n >= need
                                    /\ (obs.kind = "reply" => \A k \in 1..Len(o.layers) : k <= Len(ch) /\ ch[k] = o.layers[k]))
    \cup V("C20", "one-recv-one-terminal-per-layer",
           \A k \in 1..n : /\ CountEv(log, 1, ly[k], { "recv" }) = 1
                           /\ CountEv(log, 1, ly[k], Terminal) = 1
                           /\ FirstIdx(log, 1, ly[k], { "recv" }) < FirstIdx(log, 1, ly[k], Terminal))
    \cup V("C20", "only-recv-send-drop", \A i \in 1..Len(log) : log[i].layer = "app" \/ log[i].verb \in { "recv", "send", "drop" })
    \cup V("C20", "nested-from-ethernet-inwards",
           \A k \in 1..(n - 1) :
              /\ FirstIdx(log, 1, ly[k], { "recv" }) < FirstIdx(log, 1, ly[k + 1], { "recv" })
              /\ FirstIdx(log, 1, ly[k + 1], Terminal) < FirstIdx(log, 1, ly[k], Terminal))
    \cup (IF n >= 1
          THEN V("C20", "ethernet-terminal-is-send-iff-reply",
                 LET i == FirstIdx(log, 1, "eth", Terminal) IN
                 i = 0 \/ (log[i].verb = "send") = (obs.kind = "reply"))
          ELSE {})
    \cup V("C20", "printed-fields-are-the-frames",
           LET hasIp == (EthType(b) = ETH_ARP /\ ArpOK(b)) \/ (EthType(b) = ETH_IP4 /\ Ip4OK(b)) \/ (EthType(b) = ETH_IP6 /\ Ip6OK(b))
               hasPorts == hasIp /\ EthType(b) # ETH_ARP /\ L3Ctx(b).e - L3Ctx(b).s >= 4
           IN \A i \in 1..Len(log) : log[i].bad = 1 \/ (LogFieldsOK(b, obs, log[i]) /\ Present(log[i], hasIp, hasPorts)))

(***************************************************************************)
(* Judge: every clause violated by observation obs of frame b              *)
(***************************************************************************)
JudgeCore(b, obs) ==
    LET o == ExpectL2(b)
        r == obs.rep
        answered == obs.kind = "reply"
        ans == o.ans
    IN
    (* scope: who must not be answered (C02), what is never answered (C05/C06/C07/C12) *)
    (IF ans = "mustnot" /\ answered
     THEN { << (CASE o.name \in { "EthForeignMac", "EthTypeOther", "Ip4Denied", "Ip6Denied",
                                  "Ip4NotSelf", "Ip6NotSelf", "Ip4ProtoOther", "Ip6ProtoOther",
                                  "ArpNotHandled", "NsNotHandled" } -> "C02"
                  [] o.name \in { "ArpNotRequest", "Icmp4Other", "Icmp6Other", "Icmp6CodeNZ" } -> "C05"
                  [] o.name \in { "TcpSynRefused" } -> "C06"
                  [] o.name \in { "TcpDataBadCookie", "TcpAckSilent", "TcpRstSilent" } -> "C07"
                  [] o.name \in { "TcpSynAckSilent" } -> "C12"
                  [] OTHER -> "C02"),
              "answered:" \o o.name >> }
          (* messages their own protocol marks as replies (C12): ARP replies, echo replies and      *)
          (* neighbour advertisements, TCP segments carrying RST or both SYN and ACK                *)
          \cup (IF \/ (o.name = "ArpNotRequest" /\ ArpOp(b) = 2)
                   \/ (o.name = "Icmp4Other" /\ IcmpType(b, L3Ctx(b).s) = 0)
                   \/ (o.name = "Icmp6Other" /\ IcmpType(b, L3Ctx(b).s) \in { 129, 136 })
                   \/ (o.kind = "none" /\ o.layers \in { << "eth", "ipv4", "tcp" >>, << "eth", "ipv6", "tcp" >> }
                       /\ LET fl == TcpCtx(b).flags IN HasFlag(fl, F_RST) \/ (HasFlag(fl, F_SYN) /\ HasFlag(fl, F_ACK)))
                THEN { << "C12", "reply-typed-message-answered:" \o o.name >> } ELSE {})
     ELSE {})
    \cup (IF ans = "must" /\ ~answered
          THEN { << (CASE o.kind \in { "arp", "echo4", "echo6", "na" } -> "C05"
                       [] o.kind = "synack" -> "C06"
                       [] o.kind \in { "finack", "data" } -> "C07"
                       [] OTHER -> "C05"),
                   "unanswered:" \o o.name >> }
          ELSE {})
    (* every emitted frame: well formed (C04) and, when a relation applies, related *)
    \cup (IF answered
          THEN { << "C04", t >> : t \in WF(r) }
               \cup (IF Len(r) < 14 THEN {}
                     ELSE IF o.kind = "none" \/ ~ReplyShape(b, r, 4) THEN MirrorEth(b, r)
                     ELSE CASE o.kind = "arp"    -> IF ArpWellFormed(b) THEN ArpReplyOK(b, r) ELSE MirrorEth(b, r)
                            [] o.kind = "echo4"  -> IF Ip4Proto(r) = PROTO_ICMP THEN EchoReplyOK(b, r) ELSE { << "C03", "same-transport" >> }
                            [] o.kind = "echo6"  -> IF Ip6Nh(r) = PROTO_ICMP6 THEN EchoReplyOK(b, r) ELSE { << "C03", "same-transport" >> }
                            [] o.kind = "na"     -> IF Ip6Nh(r) = PROTO_ICMP6 THEN NaOK(b, r) ELSE { << "C03", "same-transport" >> }
                            [] o.kind \in { "synack", "finack", "data", "other", "refused" } ->
                                 IF ~ReplyShape(b, r, 20) \/ (IF EthType(r) = ETH_IP4 THEN Ip4Proto(r) ELSE Ip6Nh(r)) # PROTO_TCP
                                 THEN { << "C03", "same-transport" >> }
                                 ELSE LET rs == L4Start(r)
                                          t  == TcpCtx(b)
                                          isSynAck == TcpFlags(r, rs) = F_SYN + F_ACK
                                      IN (CASE o.kind = "synack" -> SynAckOK(b, r)
                                            [] o.kind = "finack" -> FinAckOK(b, r)
                                                  \cup V("C06", "synack-only-under-syn-policy", ~isSynAck)
                                            [] o.kind = "data"   -> DataReplyOK(b, r)
                                                  \cup V("C06", "synack-only-under-syn-policy", ~isSynAck)
                                                  \cup AppJudge("tcp", StreamBefore(t.flow), DoneBefore(t.flow),
                                                                TcpPayload(b), AppCtxTcp(b),
                                                                Bytes(r, TcpDataStartR(r), Len(r)), obs.aux)
                                            [] o.kind = "refused" -> MirrorTcp(b, r)
                                                  \cup V("C06", "answered:TcpSynRefused", ~isSynAck)
                                            [] OTHER -> MirrorTcp(b, r)
                                                  \cup V("C06", "synack-only-under-syn-policy", ~isSynAck))
                            [] o.kind = "udp" ->
                                 IF ~ReplyShape(b, r, 8) \/ (IF EthType(r) = ETH_IP4 THEN Ip4Proto(r) ELSE Ip6Nh(r)) # PROTO_UDP
                                 THEN { << "C03", "same-transport" >> }
                                 ELSE UdpReplyOK(b, r)
                            [] OTHER -> MirrorEth(b, r))
          ELSE {})
    (* application layer over UDP: answered or not, by whom, and how (C10 - C19) *)
    \cup (IF o.kind = "udp"
          THEN AppJudge("udp", << >>, FALSE, UdpPayload(b), AppCtxUdp(b),
                        IF answered /\ ReplyShape(b, r, 8) THEN Bytes(r, L4Start(r) + 8, Len(r)) ELSE << >>,
                        obs.aux)
          ELSE {})
    (* connection table (C09): its size is the number of validated flows *)
    \cup V("C09", "table-size-is-number-of-validated-flows",
           LET t == TcpCtx(b)
               grows == o.kind = "data" /\ ~Validated(t.flow) /\ answered
           IN obs.tcb = Cardinality(DOMAIN tcb) + (IF grows THEN 1 ELSE 0))
    \cup LogOK(b, obs, o)

(* An abort is a violation of C01; and since nothing was sent, a frame that had to be      *)
(* answered was not (the clauses of a silent observation, except the table size, which an   *)
(* aborted process no longer reports).                                                       *)
(* The statements speak of requests; a responder that ignores what no conforming sender emits *)
(* (a wrong header or transport checksum, a fragment, a wrong version nibble) still satisfies   *)
(* them.  Such frames are never *required* to be answered; what is sent for them is judged.    *)
(* transport headers no conforming sender emits: a TCP data offset below 5 or beyond the segment, *)
(* a UDP length that disagrees with the IP payload, an echo without identifier and sequence number *)
L4HeaderSound(b, x) ==
    IF x.e <= x.s THEN TRUE
    ELSE CASE x.proto = PROTO_TCP -> x.e - x.s < 20 \/ (TcpDoff(b, x.s) >= 5 /\ x.s + TcpDoff(b, x.s) * 4 <= x.e)
           [] x.proto = PROTO_UDP -> x.e - x.s < 8 \/ UdpLen(b, x.s) = x.e - x.s
           [] x.proto \in { PROTO_ICMP, PROTO_ICMP6 } -> x.e - x.s >= 8 \/ x.e - x.s < 4
           [] OTHER -> TRUE

RequestSound(b) ==
    IF Len(b) < 14 THEN TRUE
    ELSE IF EthType(b) = ETH_IP4 /\ Ip4OK(b) THEN
         LET x == L3Ctx(b) IN
         /\ Ip4Ver(b) = 4 /\ Ip4Ihl(b) >= 5 /\ 14 + Ip4Ihl(b) * 4 <= Len(b)
         /\ Ip4TotLen(b) >= Ip4Ihl(b) * 4 /\ 14 + Ip4TotLen(b) <= Len(b)
         /\ L4HeaderSound(b, x)
         /\ (Ip4FlagsFrag(b) % 16384) = 0
         /\ CsumOK(b, 14, 14 + Ip4Ihl(b) * 4, 0)
         /\ (x.e <= x.s
             \/ CASE x.proto = PROTO_ICMP -> x.e - x.s < 4 \/ CsumOK(b, x.s, x.e, 0)
                  [] x.proto = PROTO_TCP  -> x.e - x.s < 20 \/ CsumOK(b, x.s, x.e, Pseudo4(x.src, x.dst, PROTO_TCP, x.e - x.s))
                  [] x.proto = PROTO_UDP  -> x.e - x.s < 8 \/ UdpCsum(b, x.s) = 0
                                             \/ CsumOK(b, x.s, x.e, Pseudo4(x.src, x.dst, PROTO_UDP, x.e - x.s))
                  [] OTHER -> TRUE)
    ELSE IF EthType(b) = ETH_IP6 /\ Ip6OK(b) THEN
         LET x == L3Ctx(b) IN
         /\ Ip6Ver(b) = 6 /\ 54 + Ip6PLen(b) <= Len(b)
         /\ L4HeaderSound(b, x)
         /\ (x.e <= x.s
             \/ CASE x.proto = PROTO_ICMP6 -> x.e - x.s < 4 \/ CsumOK(b, x.s, x.e, Pseudo6(x.src, x.dst, PROTO_ICMP6, x.e - x.s))
                  [] x.proto = PROTO_TCP   -> x.e - x.s < 20 \/ CsumOK(b, x.s, x.e, Pseudo6(x.src, x.dst, PROTO_TCP, x.e - x.s))
                  [] x.proto = PROTO_UDP   -> x.e - x.s < 8 \/ CsumOK(b, x.s, x.e, Pseudo6(x.src, x.dst, PROTO_UDP, x.e - x.s))
                  [] OTHER -> TRUE)
    ELSE TRUE

UnansweredAll == UnansweredTags \cup { "unanswered:" \o n : n \in { "ArpReply", "Icmp4Echo", "Icmp6Echo", "NsAdvert", "TcpSynAck",
                                                                  "TcpFinAck", "TcpDataFirstValid", "TcpDataKnownFlow" } }

JudgeSound(b, obs) ==
    LET j0 == JudgeCore(b, obs)
        (* a UDP length field that disagrees with the IP payload: which bytes are "the payload" is *)
        (* ambiguous, so a must-not-answer class of that payload is not held against the responder *)
        udpOdd == ExpectL2(b).kind = "udp" /\ LET u == UdpCtx(b) IN UdpLen(b, u.s) # u.e - u.s
        j == IF udpOdd
             THEN LET c == Classify("udp", << >>, UdpPayload(b), AppCtxUdp(b)) IN
                  { v \in j0 : v # << c.prop, "answered:" \o c.why >> /\ v # << "C12", "reply-typed-message-answered" >> }
             ELSE j0
    IN
    IF \E v \in j : v[2] \in UnansweredAll
    THEN (IF RequestSound(b) THEN j ELSE { v \in j : v[2] \notin UnansweredAll })
    ELSE j

Judge(b, obs) ==
    IF obs.kind = "panic"
    THEN { << "C01", "abort" >> }
         \cup { v \in JudgeSound(b, [ obs EXCEPT !.kind = "silence", !.rep = << >> ]) : v[1] # "C09" }
    ELSE JudgeSound(b, obs)

(***************************************************************************)
(* C19: answers do not depend on ports or IP version.  Events whose        *)
(* aux.grp is non-zero belong to a group of frames carrying the same       *)
(* application payload over the same transport; all members of a group     *)
(* must be answered alike (answered or not, by the same responder, with    *)
(* the same bytes after masking the fields the statement lists).           *)
(***************************************************************************)
GroupObs(b, obs) ==
    LET o == ExpectL2(b)
        r == obs.rep
        transport == IF o.kind = "udp" THEN "udp" ELSE "tcp"
        pay == IF o.kind = "udp" THEN UdpPayload(b) ELSE TcpPayload(b)
        shaped == obs.kind = "reply" /\ ReplyShape(b, r, IF o.kind = "udp" THEN 8 ELSE 20)
        rpl == IF ~shaped THEN << >>
               ELSE IF o.kind = "udp" THEN Bytes(r, L4Start(r) + 8, Len(r)) ELSE Bytes(r, TcpDataStartR(r), Len(r))
    IN [ transport |-> transport, pay |-> pay, answered |-> rpl # << >>,
         who |-> IF rpl = << >> THEN "nobody" ELSE ResponderOf(transport, rpl),
         canon |-> IF rpl = << >> THEN << >> ELSE AppCanon(transport, rpl) ]

GroupEligible(b, obs) ==
    LET o == ExpectL2(b) IN
    obs.aux.grp # 0 /\ (o.kind = "udp" \/ (o.kind = "data" /\ obs.kind = "reply" /\ StreamBefore(TcpCtx(b).flow) = << >>))

GroupJudge(b, obs) ==
    IF ~GroupEligible(b, obs) \/ obs.aux.grp \notin DOMAIN groups THEN {}
    ELSE LET g == groups[obs.aux.grp]
             m == GroupObs(b, obs)
         IN IF g.pay # m.pay \/ g.transport # m.transport THEN {}
            ELSE V("C19", "answered-or-not-independent-of-ports-and-ip-version", g.answered = m.answered)
                 \cup V("C19", "same-responder-whatever-the-ports-and-ip-version", g.who = m.who)
                 \cup V("C19", "same-bytes-after-masking-endpoint-and-clock-fields", g.canon = m.canon)

AfterGroups(b, obs) ==
    IF ~GroupEligible(b, obs) \/ obs.aux.grp \in DOMAIN groups THEN groups
    ELSE [ k \in DOMAIN groups \cup { obs.aux.grp } |-> IF k = obs.aux.grp THEN GroupObs(b, obs) ELSE groups[k] ]

(***************************************************************************)
(* C08: the reply to a frame is a function of the configuration, the frame *)
(* and the accepted data segments of its own flow.  Events carrying the    *)
(* same non-zero aux.pair are the same frame executed under two histories  *)
(* that agree on its own flow (one of them contains nothing else); the two *)
(* observations must be equal modulo wall-clock fields.                    *)
(***************************************************************************)
(* headers of a TCP / UDP reply frame up to its payload (hend), with the fields that depend on *)
(* the payload's length or bytes zeroed: IP total / payload length, IPv4 header checksum, the   *)
(* transport checksum at offset co (and the UDP length before it)                              *)
MaskLenCsum(r, rs, co) ==
    LET hend == IF co = rs + 16 THEN TcpDataStartR(r) ELSE rs + 8
        z == (IF EthType(r) = ETH_IP4 THEN { 17, 18, 25, 26 } ELSE { 19, 20 })
             \cup { co + 1, co + 2 } \cup (IF co = rs + 6 THEN { rs + 5, rs + 6 } ELSE {})
    IN [ i \in 1..hend |-> IF i \in z THEN 0 ELSE r[i] ]

ReplyCanon(b, obs) ==
    LET r == obs.rep
        o == ExpectL2(b)
    IN
    IF obs.kind # "reply" THEN << obs.kind >>
    ELSE IF o.layers = << "eth", "ipv4", "tcp" >> \/ o.layers = << "eth", "ipv6", "tcp" >>
    THEN IF ~ReplyShape(b, r, 20) THEN r
         ELSE LET rs == L4Start(r)  ds == TcpDataStartR(r) IN
              (* the whole frame; the lengths and checksums that follow the masked clock fields zeroed *)
              << MaskLenCsum(r, rs, rs + 16), ClockCanon("tcp", Bytes(r, ds, Len(r))) >>
    ELSE IF o.kind = "udp"
    THEN IF ~ReplyShape(b, r, 8) THEN r
         ELSE LET rs == L4Start(r) IN
              << MaskLenCsum(r, rs, rs + 6), ClockCanon("udp", Bytes(r, rs + 8, Len(r))) >>
    ELSE r

PairJudge(b, obs) ==
    IF obs.aux.pair = 0 \/ obs.aux.pair \notin DOMAIN pairs THEN {}
    ELSE LET p == pairs[obs.aux.pair] IN
         IF p.req # b THEN {}
         ELSE V("C08", "reply-depends-only-on-the-frame-and-its-own-flow", p.canon = ReplyCanon(b, obs))

AfterPairs(b, obs) ==
    IF obs.aux.pair = 0 \/ obs.aux.pair \in DOMAIN pairs THEN pairs
    ELSE [ k \in DOMAIN pairs \cup { obs.aux.pair } |->
             IF k = obs.aux.pair THEN [ req |-> b, canon |-> ReplyCanon(b, obs) ] ELSE pairs[k] ]

(***************************************************************************)
(* C11: whether the first request on a flow is answered, the stream byte   *)
(* that triggers the reply and the reply's content depend on the byte      *)
(* stream only.  Flows carrying the same non-zero aux.seg carry the same   *)
(* byte stream cut differently.  A member that is answered by the segment  *)
(* covering stream bytes n0+1..n1 says: the trigger byte lies in (n0, n1]; *)
(* a member that has consumed n1 bytes with bare ACKs only says: it lies   *)
(* beyond n1.  All members must be consistent, and the answers equal.      *)
(* This holds for every stream, also those whose answer the statements     *)
(* leave open (class any).                                                 *)
(***************************************************************************)
StreamCap == 4096

SegEligible(b, obs) ==
    LET o == ExpectL2(b) IN
    /\ obs.aux.seg # 0 /\ o.kind = "data" /\ o.name \in { "TcpDataFirstValid", "TcpDataKnownFlow" }
    /\ obs.kind = "reply" /\ ReplyShape(b, obs.rep, 20)
    /\ ~DoneBefore(TcpCtx(b).flow)
    /\ Len(StreamBefore(TcpCtx(b).flow)) + Len(TcpPayload(b)) <= StreamCap

SegObs(b, obs) ==
    LET old == StreamBefore(TcpCtx(b).flow)
        s == old \o TcpPayload(b)
        carried == Len(obs.rep) > TcpDataStartR(obs.rep)
        c == AppCtxTcp(b)
        rpl == AppReplyOf(obs.rep)
    IN [ s |-> s, n0 |-> Len(old), n1 |-> Len(s), ans |-> carried,
         (* fields that carry an endpoint address are compared only between members contacted *)
         (* from and at the same endpoint (the source port differs by construction)           *)
         ctx |-> << c.ver, c.src, c.dst, c.dport >>,
         canon |-> IF carried THEN AppCanon("tcp", rpl) ELSE << >>,
         exact |-> IF ~carried THEN << >>
                   ELSE IF ResponderOf("tcp", rpl) = "STUN" THEN AppCanon("tcp", rpl) ELSE ClockCanon("tcp", rpl) ]

SegNone == [ str |-> << >>, sil |-> 0, ans |-> FALSE, lo |-> 0, hi |-> 0, canon |-> << >>, exact |-> << >>, ctx |-> << >> ]
SegCompatible(g, m) == IsPrefix(m.s, g.str) \/ IsPrefix(g.str, m.s)

SegJudge(b, obs) ==
    IF ~SegEligible(b, obs) \/ obs.aux.seg \notin DOMAIN segs THEN {}
    ELSE LET g == segs[obs.aux.seg]
             m == SegObs(b, obs)
         IN IF ~SegCompatible(g, m) THEN {}
            ELSE IF m.ans
            THEN V("C11", "reply-triggered-by-the-same-stream-byte-however-the-stream-is-cut",
                   /\ MaxOf(m.n0, g.sil) < m.n1
                   /\ (g.ans => MaxOf(m.n0, g.lo) < MinOf(m.n1, g.hi)))
                 \cup V("C11", "same-reply-however-the-stream-is-cut", g.ans => (g.canon = m.canon /\ (g.ctx = m.ctx => g.exact = m.exact)))
            ELSE V("C11", "answered-or-not-independent-of-the-cut", g.ans => m.n1 < g.hi)

AfterSegs(b, obs) ==
    IF ~SegEligible(b, obs) THEN segs
    ELSE LET m == SegObs(b, obs)
             id == obs.aux.seg
             g == IF id \in DOMAIN segs THEN segs[id] ELSE SegNone
         IN IF ~SegCompatible(g, m) THEN segs
            ELSE (id :> [ str |-> IF Len(m.s) > Len(g.str) THEN m.s ELSE g.str,
                          sil |-> IF m.ans THEN g.sil ELSE MaxOf(g.sil, m.n1),
                          ans |-> g.ans \/ m.ans,
                          lo  |-> IF m.ans THEN (IF g.ans THEN MaxOf(g.lo, m.n0) ELSE m.n0) ELSE g.lo,
                          hi  |-> IF m.ans THEN (IF g.ans THEN MinOf(g.hi, m.n1) ELSE m.n1) ELSE g.hi,
                          canon |-> IF m.ans /\ ~g.ans THEN m.canon ELSE g.canon,
                          exact |-> IF m.ans /\ ~g.ans THEN m.exact ELSE g.exact,
                          ctx   |-> IF m.ans /\ ~g.ans THEN m.ctx ELSE g.ctx ]) @@ segs

(***************************************************************************)
(* State after the step                                                    *)
(***************************************************************************)

AfterTcb(b, obs) ==
    LET o == ExpectL2(b) IN
    IF o.kind # "data" \/ obs.kind # "reply" \/ ~ReplyShape(b, obs.rep, 20) THEN tcb
    ELSE LET t   == TcpCtx(b)
             pay == TcpPayload(b)
             old == StreamBefore(t.flow)
             fits == Len(old) + Len(pay) <= StreamCap
             new == IF fits THEN old \o pay ELSE old
             rs  == L4Start(obs.rep)
             carried == Len(obs.rep) > TcpDataStartR(obs.rep)
             c   == AppCtxTcp(b)
             whole == pay = << >> \/ (Len(pay) >= 4 /\ pay[1] = 0
                                        /\ 4 + (pay[2] % 2) * 65536 + pay[3] * 256 + pay[4] = Len(pay))
         IN (t.flow :> [ stream |-> new, done |-> DoneBefore(t.flow) \/ carried,
                         nbt |-> c.nbt /\ whole, over |-> c.over \/ ~fits ]) @@ tcb

AfterCk(b, obs) ==
    LET o == ExpectL2(b) IN
    IF obs.kind # "reply" \/ ~ReplyShape(b, obs.rep, 20) THEN ck
    ELSE LET t == TcpCtx(b)  rs == L4Start(obs.rep) IN
         IF o.kind = "synack" /\ ~Bound(t.flow) /\ TcpFlags(obs.rep, rs) = F_SYN + F_ACK
         THEN (t.flow :> TcpSeq(obs.rep, rs)) @@ ck
         ELSE IF o.name = "TcpDataUnboundCookie"
         THEN (t.flow :> Sub1_32(t.ack)) @@ ck
         ELSE ck

(* first flow seen with each cookie, and the collisions observed *)
NewBinding(b, obs) ==      \* << flow, cookie >> bound by this step from a SYN-ACK, or << >>
    LET o == ExpectL2(b) IN
    IF o.kind = "synack" /\ obs.kind = "reply" /\ ReplyShape(b, obs.rep, 20)
       /\ TcpFlags(obs.rep, L4Start(obs.rep)) = F_SYN + F_ACK
    THEN << TcpCtx(b).flow, TcpSeq(obs.rep, L4Start(obs.rep)) >> ELSE << >>

AfterByck(b, obs) ==
    LET nb == NewBinding(b, obs) IN
    IF nb = << >> \/ nb[2] \in DOMAIN byck THEN byck ELSE (nb[2] :> nb[1]) @@ byck

AfterColl(b, obs) ==
    LET nb == NewBinding(b, obs) IN
    IF nb = << >> THEN coll
    ELSE LET p == CollisionPartner(nb[1], nb[2])
             sk == SelfKey(nb[1], nb[2])
             coll1 == (sk :> ((IF sk \in DOMAIN coll THEN coll[sk] ELSE {}) \cup { cfg.key })) @@ coll
         IN
         IF p = << >> THEN coll1
         ELSE LET x == IF << p[1], nb[1] >> \in DOMAIN coll1 THEN << p[1], nb[1] >>
                       ELSE IF << nb[1], p[1] >> \in DOMAIN coll1 THEN << nb[1], p[1] >> ELSE << p[1], nb[1] >>
              IN (x :> ((IF x \in DOMAIN coll1 THEN coll1[x] ELSE {}) \cup { cfg.key })) @@ coll1

AfterCkx(b, obs) ==
    LET o == ExpectL2(b) IN
    IF o.name = "TcpDataUnboundCookie" /\ obs.kind = "silence" /\ RequestSound(b)
       /\ ~HasFlag(TcpCtx(b).flags, F_RST) /\ ~HasFlag(TcpCtx(b).flags, F_SYN)     \* silence on such a segment says nothing about the cookie
    THEN LET t == TcpCtx(b) IN ckx \cup { << t.flow, Sub1_32(t.ack) >> }
    ELSE ckx

(***************************************************************************)
(* Actions                                                                 *)
(***************************************************************************)
EmptyFn == [ x \in {} |-> 0 ]

Init(c) ==
    /\ cfg = c /\ tcb = EmptyFn /\ ck = EmptyFn /\ ckx = {}
    /\ viol = {} /\ kf = {} /\ last = "init" /\ groups = EmptyFn /\ pairs = EmptyFn /\ segs = EmptyFn
    /\ byck = EmptyFn /\ coll = EmptyFn /\ fmt = {}

(* Known findings: a violated clause is attributed to a listed deviation   *)
(* only if it falls in that deviation's specific class.                    *)
IsTcpFrame(b) == ExpectL2(b).layers = << "eth", "ipv4", "tcp" >> \/ ExpectL2(b).layers = << "eth", "ipv6", "tcp" >>

(* the implementation keys its table by the 32-bit cookie: two flows whose *)
(* cookies are equal share one control block                               *)
CookieCollision(b) ==
    /\ IsTcpFrame(b)
    /\ LET t == TcpCtx(b) IN
       /\ Bound(t.flow)
       /\ \E g \in DOMAIN tcb : g # t.flow /\ Bound(g) /\ ck[g] = ck[t.flow]

KnownKey(v, b, obs) ==
    IF v[1] \in { "C07", "C08", "C09" } /\ CookieCollision(b)
    THEN LET c == ck[TcpCtx(b).flow] IN v[1] \o ":equal-cookies:" \o ToString(c[1]) \o ":" \o ToString(c[2])
    ELSE IF ExpectL2(b).kind = "udp" THEN AppKnownKey(v, "udp", << >>, UdpPayload(b))
    ELSE IF ExpectL2(b).kind = "data" THEN AppKnownKey(v, "tcp", StreamBefore(TcpCtx(b).flow), TcpPayload(b))
    ELSE "-"

(* outcome action taken, with the application-level class for payload-bearing frames *)
OutcomeLabel(b) ==
    LET o == ExpectL2(b) IN
    IF o.kind = "udp"
    THEN LET c == Classify("udp", << >>, UdpPayload(b), AppCtxUdp(b)) IN o.name \o "/" \o c.proto \o "/" \o c.ans \o "/" \o c.why
    ELSE IF o.kind = "data"
    THEN LET t == TcpCtx(b)
             c == Classify("tcp", StreamBefore(t.flow), TcpPayload(b), AppCtxTcp(b))
         IN o.name \o "/" \o c.proto \o "/" \o c.ans \o "/" \o c.why
    ELSE o.name

Handle(b, obs) ==
    LET j == Judge(b, obs) \cup GroupJudge(b, obs) \cup PairJudge(b, obs) \cup SegJudge(b, obs)
        known == { v \in j : KnownKey(v, b, obs) \in KnownKeys }
    IN
    /\ viol' = j \ known
    /\ kf' = { KnownKey(v, b, obs) : v \in known }
    /\ tcb' = AfterTcb(b, obs)
    /\ ck' = AfterCk(b, obs)
    /\ ckx' = AfterCkx(b, obs)
    /\ last' = OutcomeLabel(b)
    /\ groups' = AfterGroups(b, obs)
    /\ pairs' = AfterPairs(b, obs)
    /\ segs' = AfterSegs(b, obs)
    /\ byck' = AfterByck(b, obs)
    /\ coll' = AfterColl(b, obs)
    /\ fmt' = fmt \cup FieldsPrinted(obs.log)
    /\ UNCHANGED cfg

Reconfigure(c) ==
    /\ cfg' = c /\ tcb' = EmptyFn /\ ck' = EmptyFn /\ ckx' = {}
    /\ viol' = {} /\ kf' = {} /\ last' = "reconfigure" /\ groups' = EmptyFn /\ pairs' = EmptyFn /\ segs' = EmptyFn
    /\ byck' = EmptyFn /\ fmt' = {} /\ UNCHANGED coll

ResetTable ==
    /\ tcb' = EmptyFn /\ viol' = {} /\ kf' = {} /\ last' = "reset"
    /\ UNCHANGED << cfg, ck, ckx, groups, pairs, byck, coll, fmt, segs >>
=============================================================================
