------------------------------- MODULE Trace -------------------------------
(***************************************************************************)
(* Trace validation: a recorded execution of the real responder (one       *)
(* ndjson record per driver interaction, file named by environment         *)
(* variable TRACE) must be a behaviour of Stack.  Each record is consumed  *)
(* by the Stack action it names; the clauses the step violates end up in   *)
(* `viol` (Stack!Handle) and are reported through VERDICT lines, so that   *)
(* the rest of the trace is still checked.  Acceptance (POSTCONDITION):    *)
(* the whole trace was consumed and no unlisted clause was violated.       *)
(*                                                                         *)
(* Records:  {"ev":"cfg", "mac":[..], "self":[[..],..]|[], "hasself":0/1,  *)
(*            "deny":[..], "hasdeny":0/1, "key":<id>, "logger":"..."}      *)
(*           {"ev":"reset"}                                                *)
(*           {"ev":"frame","req":[..],"out":"reply|silence|panic",         *)
(*            "rep":[..],"tcb":n,"log":[..],"aux":{..}}                    *)
(***************************************************************************)
EXTENDS Stack, Json, IOUtils, TLCExt

Rec == ndJsonDeserialize(IOEnv.TRACE)

(* which properties this run reports ("ALL" or a property id) *)
Focus == IF "FOCUS" \in DOMAIN IOEnv THEN IOEnv.FOCUS ELSE "ALL"

KnownKeysDef == LET k == JsonDeserialize(IOEnv.KNOWN) IN { k[i] : i \in 1..Len(k) }

VARIABLE l

tvars == << svars, l >>

SetOf(q) == { q[i] : i \in 1..Len(q) }

CfgOf(r) ==
    [ mac |-> r.mac,
      hasself |-> r.hasself, self |-> SetOf(r.self),
      hasdeny |-> r.hasdeny, deny |-> SetOf(r.deny),
      key |-> r.key, logger |-> r.logger ]

(* A frame padded with zeros to the Ethernet minimum (60 bytes) is the same frame: the IP lengths *)
(* speak of the packet, not of the padding.                                                       *)
Unpad(f) ==
    IF Len(f) > 60 \/ Len(f) < 34 THEN f
    ELSE LET e == IF EthType(f) = ETH_IP4 THEN 14 + Ip4TotLen(f)
                  ELSE IF EthType(f) = ETH_IP6 /\ Len(f) >= 54 THEN 54 + Ip6PLen(f) ELSE Len(f)
         IN IF e >= 34 /\ e < Len(f) /\ \A k \in (e + 1)..Len(f) : f[k] = 0 THEN SubSeq(f, 1, e) ELSE f

ObsOf(r) == [ kind |-> r.out, rep |-> Unpad(r.rep), log |-> r.log, tcb |-> r.tcb, aux |-> r.aux ]

DefaultCfg == [ mac |-> << 0, 0, 0, 0, 0, 0 >>, hasself |-> 0, self |-> {}, hasdeny |-> 0, deny |-> {}, key |-> 0, logger |-> "none" ]

TraceInit == Init(DefaultCfg) /\ l = 1

Relevant(v) == Focus = "ALL" \/ v[1] = Focus

(* report and count; evaluated once per consumed record *)
Report(i, vs, ks, name) ==
    /\ \A v \in vs : Relevant(v) =>
          /\ PrintT(<< "VERDICT", i, v[1], v[2], name >>)
          /\ TLCSet(1, TLCGet(1) + 1)
    /\ \A k \in ks : PrintT(<< "KNOWN", i, k, name >>)
    /\ PrintT(<< "STEP", i, name >>)

TraceNext ==
    /\ l <= Len(Rec)
    /\ l' = l + 1
    /\ LET r == Rec[l] IN
       CASE r.ev = "cfg"   -> Reconfigure(CfgOf(r))
         [] r.ev = "reset" -> ResetTable
         [] r.ev = "frame" -> Handle(r.req, ObsOf(r))
    /\ Report(l, viol', kf', last')

TraceSpec == TraceInit /\ [][TraceNext]_tvars

ASSUME TLCSet(1, 0)

TraceAccepted ==
    /\ TLCGet("stats").diameter = Len(Rec) + 1
    /\ TLCGet(1) = 0
=============================================================================
