-------------------------------- MODULE Rpc ---------------------------------
(***************************************************************************)
(* ONC-RPC / portmapper (property C16).  A call for a program in the       *)
(* portmapper range gets an accepted reply with the same XID and a null    *)
(* verifier, XDR well formed; over TCP framed by a record mark with the    *)
(* last-fragment bit and the reply length.  Precedence: version outside    *)
(* 2..4 -> PROG_MISMATCH(2,4); procedure 0 -> empty success; portmapper    *)
(* GETPORT/GETADDR and DUMP advertise the contacted address and port;      *)
(* other procedures -> PROC_UNAVAIL; other programs -> PROG_UNAVAIL.       *)
(* Offsets below are relative to `o`, the start of the RPC message (4 on   *)
(* TCP, after the record mark; 0 on UDP).                                  *)
(***************************************************************************)
EXTENDS Integers, Sequences, FiniteSets

RU16(b, o) == b[o + 1] * 256 + b[o + 2]
RU32(b, o) == << RU16(b, o), RU16(b, o + 2) >>
RPad4(n) == ((n + 3) \div 4) * 4
Small32(x) == x[1] = 0                         \* fits in 16 bits
P32(n) == << n \div 65536, n % 65536 >>

PORTMAP == << 1, 34464 >>                       \* 100000 = 0x000186a0

(* the call header, when the message holds all of it: up to and including *)
(* the verifier (flavour, length, body)                                    *)
RpcCall(p, o) ==
    IF Len(p) < o + 40 THEN [ ok |-> FALSE ]
    ELSE LET cl == RU32(p, o + 28) IN
         IF ~Small32(cl) \/ cl[2] > 400 \/ Len(p) < o + 32 + RPad4(cl[2]) + 8 THEN [ ok |-> FALSE ]
         ELSE LET vo == o + 32 + RPad4(cl[2])
                  vl == RU32(p, vo + 4)
              IN IF ~Small32(vl) \/ vl[2] > 400 \/ Len(p) < vo + 8 + RPad4(vl[2]) THEN [ ok |-> FALSE ]
                 ELSE [ ok |-> TRUE,
                        xid |-> RU32(p, o), mtype |-> RU32(p, o + 4), rpcvers |-> RU32(p, o + 8),
                        prog |-> RU32(p, o + 12), vers |-> RU32(p, o + 16), proc |-> RU32(p, o + 20),
                        credlen |-> cl[2], veriflen |-> vl[2],
                        hdrend |-> vo + 8,                        \* after the verifier length word
                        end |-> vo + 8 + RPad4(vl[2]) ]           \* after the verifier body

(* a clean call: message type CALL, RPC version 2, XDR-aligned opaque auth *)
RpcCleanCall(p, o) ==
    LET c == RpcCall(p, o) IN
    /\ c.ok
    /\ c.mtype = << 0, 0 >>
    /\ c.rpcvers = << 0, 2 >>
    /\ c.credlen % 4 = 0 /\ c.veriflen = 0

(* a call whose header (up to the verifier length word) has not arrived completely yet: the fixed *)
(* words are there and clean, the credentials they announce are not                               *)
RpcHdrIncomplete(p, o) ==
    /\ Len(p) >= o + 32
    /\ RU32(p, o + 4) = << 0, 0 >> /\ RU32(p, o + 8) = << 0, 2 >>
    /\ LET cl == RU32(p, o + 28) IN
       Small32(cl) /\ cl[2] <= 400 /\ cl[2] % 4 = 0 /\ Len(p) < o + 32 + cl[2] + 8

(* record mark of a TCP stream: last-fragment bit and 31-bit length *)
RmLast(p) == p[1] >= 128
RmLen(p)  == << (p[1] % 128) * 256 + p[2], RU16(p, 2) >>

RpcReplyTyped(p, o) == Len(p) >= o + 8 /\ RU32(p, o + 4) = << 0, 1 >>

IsRpcReply(r, o) == Len(r) >= o + 12 /\ RU32(r, o + 4) = << 0, 1 >>

(* XDR string at offset o: [ok, len, s (value offset), next] *)
XdrString(r, o) ==
    IF o + 4 > Len(r) THEN [ ok |-> FALSE, len |-> 0, s |-> 0, next |-> 0 ]
    ELSE LET l == RU32(r, o) IN
         IF ~Small32(l) \/ o + 4 + RPad4(l[2]) > Len(r) THEN [ ok |-> FALSE, len |-> 0, s |-> 0, next |-> 0 ]
         ELSE [ ok |-> TRUE, len |-> l[2], s |-> o + 4, next |-> o + 4 + RPad4(l[2]) ]

StrIs(r, x, lit) == x.ok /\ x.len = Len(lit) /\ SubSeq(r, x.s + 1, x.s + x.len) = lit
(* padding bytes of an XDR string are zero *)
PadZero(r, x) == x.ok /\ \A k \in (x.s + x.len + 1)..x.next : r[k] = 0

NETID_TCP  == << 116, 99, 112 >>
NETID_UDP  == << 117, 100, 112 >>
NETID_TCP6 == << 116, 99, 112, 54 >>
NETID_UDP6 == << 117, 100, 112, 54 >>

(* portmapper DUMP list from offset o: every entry advertises the contacted endpoint *)
RECURSIVE DumpOK(_, _, _, _, _, _, _)
DumpOK(r, o, vers, ver, dport, uaddr, n) ==
    IF o + 4 > Len(r) THEN FALSE
    ELSE IF RU32(r, o) = << 0, 0 >> THEN n >= 1 /\ o + 4 = Len(r)
    ELSE IF RU32(r, o) # << 0, 1 >> \/ o + 12 > Len(r) THEN FALSE
    ELSE IF vers = 2 THEN
         /\ o + 20 <= Len(r)
         /\ RU32(r, o + 12) \in { << 0, 6 >>, << 0, 17 >> }
         /\ RU32(r, o + 16) = P32(dport)
         /\ DumpOK(r, o + 20, vers, ver, dport, uaddr, n + 1)
    ELSE LET netid == XdrString(r, o + 12)
             addr  == XdrString(r, netid.next)
             owner == XdrString(r, addr.next)
         IN /\ netid.ok /\ addr.ok /\ owner.ok
            /\ PadZero(r, netid) /\ PadZero(r, addr) /\ PadZero(r, owner)
            /\ (IF ver = 4 THEN StrIs(r, netid, NETID_TCP) \/ StrIs(r, netid, NETID_UDP)
                ELSE StrIs(r, netid, NETID_TCP6) \/ StrIs(r, netid, NETID_UDP6))
            /\ StrIs(r, addr, uaddr)
            /\ DumpOK(r, owner.next, vers, ver, dport, uaddr, n + 1)

(* the parts of the reply relation that only need the first word of the call: framing, *)
(* correlation, accepted reply with a null verifier, XDR alignment                     *)
RpcReplyShellFailsX(p, o, r, ro, chkxid) ==
    IF Len(r) < ro + 24 \/ Len(p) < o + 4 THEN { "rpc-reply-header" }
    ELSE
    (IF ro = 4
     THEN (IF RmLast(r) /\ RmLen(r) = P32(Len(r) - 4) THEN {} ELSE { "rpc-record-mark" })
     ELSE {})
    \cup (IF ~chkxid \/ RU32(r, ro) = RU32(p, o) THEN {} ELSE { "rpc-xid" })
    \cup (IF RU32(r, ro + 4) = << 0, 1 >> /\ RU32(r, ro + 8) = << 0, 1 >>
          THEN {}      \* MSG_DENIED (RPC_MISMATCH, AUTH_ERROR) to a call the statements do not describe
          ELSE (IF RU32(r, ro + 4) = << 0, 1 >> /\ RU32(r, ro + 8) = << 0, 0 >> THEN {} ELSE { "rpc-accepted-reply" })
               \cup (IF RU32(r, ro + 12) = << 0, 0 >> /\ RU32(r, ro + 16) = << 0, 0 >> THEN {} ELSE { "rpc-null-verifier" }))
    \cup (IF (Len(r) - ro) % 4 = 0 THEN {} ELSE { "rpc-xdr-alignment" })

RpcReplyShellFails(p, o, r, ro) == RpcReplyShellFailsX(p, o, r, ro, TRUE)

(* p: request, o: its RPC offset; r: reply, ro: its RPC offset (4 on TCP); *)
(* uaddr: universal address of the contacted endpoint as text bytes        *)
RpcReplyFails(p, o, r, ro, ver, dport, uaddr) ==
    LET c == RpcCall(p, o) IN
    IF Len(r) < ro + 24 THEN { "rpc-reply-header" }
    ELSE
    (IF ro = 4
     THEN (IF RmLast(r) /\ RmLen(r) = P32(Len(r) - 4) THEN {} ELSE { "rpc-record-mark" })
     ELSE {})
    \cup (IF RU32(r, ro) = c.xid THEN {} ELSE { "rpc-xid" })
    \cup (IF RU32(r, ro + 4) = << 0, 1 >> /\ RU32(r, ro + 8) = << 0, 0 >> THEN {} ELSE { "rpc-accepted-reply" })
    \cup (IF RU32(r, ro + 12) = << 0, 0 >> /\ RU32(r, ro + 16) = << 0, 0 >> THEN {} ELSE { "rpc-null-verifier" })
    \cup (IF (Len(r) - ro) % 4 = 0 THEN {} ELSE { "rpc-xdr-alignment" })
    \cup LET stat == RU32(r, ro + 20)
             body == ro + 24
             versOK == c.vers[1] = 0 /\ c.vers[2] >= 2 /\ c.vers[2] <= 4
         IN
         IF ~versOK THEN
             (IF stat = << 0, 2 >> /\ Len(r) = body + 8 /\ RU32(r, body) = << 0, 2 >> /\ RU32(r, body + 4) = << 0, 4 >>
              THEN {} ELSE { "rpc-prog-mismatch-2-4" })
         ELSE IF c.proc = << 0, 0 >> THEN
             (IF stat = << 0, 0 >> /\ Len(r) = body THEN {} ELSE { "rpc-null-procedure-success" })
         ELSE IF c.prog # PORTMAP THEN
             (* "other procedures PROC_UNAVAIL and other programs PROG_UNAVAIL": for a procedure of *)
             (* another program the statement can be read either way                                *)
             (IF stat \in { << 0, 1 >>, << 0, 3 >> } /\ Len(r) = body THEN {} ELSE { "rpc-prog-unavail" })
         ELSE IF c.proc = << 0, 3 >> THEN
             IF c.vers[2] = 2
             THEN (IF stat = << 0, 0 >> /\ Len(r) = body + 4 /\ RU32(r, body) = P32(dport) THEN {} ELSE { "rpc-getport-contacted-port" })
             ELSE LET x == XdrString(r, body) IN
                  (IF stat = << 0, 0 >> /\ StrIs(r, x, uaddr) /\ PadZero(r, x) /\ x.next = Len(r) THEN {} ELSE { "rpc-getaddr-contacted-uaddr" })
         ELSE IF c.proc = << 0, 4 >> THEN
             (IF stat = << 0, 0 >> /\ DumpOK(r, body, c.vers[2], ver, dport, uaddr, 0) THEN {} ELSE { "rpc-dump-advertises-contacted-endpoint" })
         ELSE (IF stat = << 0, 3 >> /\ Len(r) = body THEN {} ELSE { "rpc-proc-unavail" })
=============================================================================
