------------------------------ MODULE Config ------------------------------
(***************************************************************************)
(* A configuration is a record                                             *)
(*   [ mac    : 6 bytes,                                                   *)
(*     hasself: 0/1, self : set of addresses (4- or 16-byte sequences),    *)
(*     hasdeny: 0/1, deny : set of addresses,                              *)
(*     key    : an identifier of the SipHash key (uninterpreted),          *)
(*     logger : "none" | "console" | "logfmt" ]                            *)
(* Written from the statement of property C02, not from the code.          *)
(***************************************************************************)
EXTENDS Integers, Sequences, FiniteSets

BROADCAST == << 255, 255, 255, 255, 255, 255 >>
ALLNODES6 == << 51, 51, 0, 0, 0, 1 >>                   \* 33:33:00:00:00:01

HasSelf(c) == c.hasself = 1
HasDeny(c) == c.hasdeny = 1

(* RFC 1112 6.4: low-order 23 bits of the IPv4 address in 01:00:5e:00:00:00 *)
McastMac4(a) == << 1, 0, 94, a[2] % 128, a[3], a[4] >>
(* RFC 2464 7 applied to the solicited-node group ff02::1:ffXX:XXXX          *)
McastMac6(a) == << 51, 51, 255, a[14], a[15], a[16] >>

DerivedMacs(c) ==
    IF HasSelf(c)
    THEN { IF Len(a) = 4 THEN McastMac4(a) ELSE McastMac6(a) : a \in c.self }
    ELSE {}

(* the destination MACs the responder is allowed to answer *)
Auth(c) == { c.mac, BROADCAST, ALLNODES6 } \cup DerivedMacs(c)

Handled(c, addr) == ~HasSelf(c) \/ addr \in c.self
Denied(c, addr)  == HasDeny(c) /\ addr \in c.deny
=============================================================================
