------------------------------- MODULE Wire -------------------------------
(***************************************************************************)
(* Byte-level view of frames.  A frame is a sequence of integers 0..255.   *)
(* Offsets are 0-based as in the RFCs: U8(b,o) is the byte at offset o.    *)
(* A region of a frame is a pair of offsets [s, e) into the frame; nothing *)
(* is copied.  32-bit wire values are pairs <<hi16, lo16>> because TLC     *)
(* integers are 32-bit signed.                                             *)
(*                                                                         *)
(* The request decoders follow the slicing rules of the packet library the *)
(* implementation uses (pnet 0.33): minimum sizes 14/28/20/40/4/24/20/8,   *)
(* payload = frame[start .. min(declared_end, len)], empty when the frame  *)
(* ends at or before `start`.  The reply checkers (WFxxx) are strict.      *)
(***************************************************************************)
EXTENDS Integers, Sequences, FiniteSets, SequencesExt

MinOf(a, b) == IF a < b THEN a ELSE b
MaxOf(a, b) == IF a > b THEN a ELSE b

U8(b, o)  == b[o + 1]
U16(b, o) == b[o + 1] * 256 + b[o + 2]
U32(b, o) == << U16(b, o), U16(b, o + 2) >>
Bytes(b, s, e) == SubSeq(b, s + 1, e)              \* the region [s,e) as a sequence
Bit(x, k) == (x \div (2 ^ k)) % 2

(* 32-bit arithmetic on pairs; n is a non-negative integer < 2^30 *)
Add32(p, n) ==
    LET lo == p[2] + (n % 65536)
        hi == p[1] + (n \div 65536) + (lo \div 65536)
    IN  << hi % 65536, lo % 65536 >>
Sub1_32(p) == IF p[2] > 0 THEN << p[1], p[2] - 1 >>
              ELSE IF p[1] > 0 THEN << p[1] - 1, 65535 >> ELSE << 65535, 65535 >>
U32FromBytesLE(b, o) == << b[o + 4] * 256 + b[o + 3], b[o + 2] * 256 + b[o + 1] >>

(* Region equality between two frames: a[sa .. sa+n) = b[sb .. sb+n) *)
EqRegion(a, sa, b, sb, n) == \A k \in 1..n : a[sa + k] = b[sb + k]

(* does frame b carry the literal sequence lit at offset o ? *)
HasAt(b, o, lit) == /\ o + Len(lit) <= Len(b)
                    /\ EqRegion(b, o, lit, 0, Len(lit))

(***************************************************************************)
(* Internet checksum.  One's-complement sum of big-endian 16-bit words of  *)
(* b[s, e), folded at every step so that 64 KiB regions stay far below     *)
(* 2^31; an odd trailing byte is padded with zero.                         *)
(***************************************************************************)
Fold16(x) == (x % 65536) + (x \div 65536)

(* (a left fold over the word indices: TLC evaluates it iteratively, so    *)
(* the cost stays linear in the length of the region)                      *)
SumWords(b, s, e, acc0) ==
    IF e <= s THEN acc0
    ELSE LET nw == (e - s) \div 2
             body == FoldLeft(LAMBDA acc, k : Fold16(acc + b[s + 2 * k - 1] * 256 + b[s + 2 * k]),
                              acc0, [ k \in 1..nw |-> k ])
         IN IF (e - s) % 2 = 1 THEN Fold16(body + b[e] * 256) ELSE body

(* sum of the words of a byte sequence (used for addresses) *)
SumSeq16(q) == SumWords(q, 0, Len(q), 0)

(* A region whose stored checksum is right sums (with the pseudo header)   *)
(* to 0xFFFF.                                                               *)
CsumOK(b, s, e, pseudo) == Fold16(Fold16(SumWords(b, s, e, pseudo))) = 65535

Pseudo4(src, dst, proto, l4len) ==
    Fold16(Fold16(SumSeq16(src) + SumSeq16(dst)) + Fold16(proto + l4len))
Pseudo6(src, dst, nh, l4len) ==
    Fold16(Fold16(SumSeq16(src) + SumSeq16(dst)) + Fold16(nh + l4len))

(***************************************************************************)
(* Request decoding (as the implementation's packet library slices it)     *)
(***************************************************************************)
EthOK(b)      == Len(b) >= 14
EthDst(b)     == Bytes(b, 0, 6)
EthSrc(b)     == Bytes(b, 6, 12)
EthType(b)    == U16(b, 12)

ETH_ARP  == 2054      \* 0x0806
ETH_IP4  == 2048      \* 0x0800
ETH_IP6  == 34525     \* 0x86dd

(* ARP at offset 14 *)
ArpOK(b)      == Len(b) >= 14 + 28
ArpHType(b)   == U16(b, 14)
ArpPType(b)   == U16(b, 16)
ArpHLen(b)    == U8(b, 18)
ArpPLen(b)    == U8(b, 19)
ArpOp(b)      == U16(b, 20)
ArpSha(b)     == Bytes(b, 22, 28)
ArpSpa(b)     == Bytes(b, 28, 32)
ArpTha(b)     == Bytes(b, 32, 38)
ArpTpa(b)     == Bytes(b, 38, 42)

(* IPv4 at offset 14 *)
Ip4OK(b)      == Len(b) >= 14 + 20
Ip4Ver(b)     == U8(b, 14) \div 16
Ip4Ihl(b)     == U8(b, 14) % 16
Ip4TotLen(b)  == U16(b, 16)
Ip4Id(b)      == U16(b, 18)
Ip4FlagsFrag(b) == U16(b, 20)
Ip4Ttl(b)     == U8(b, 22)
Ip4Proto(b)   == U8(b, 23)
Ip4Src(b)     == Bytes(b, 26, 30)
Ip4Dst(b)     == Bytes(b, 30, 34)
Ip4PayStart(b) == 14 + 20 + MaxOf(Ip4Ihl(b) * 4 - 20, 0)
Ip4PayEnd(b)  ==
    IF Len(b) <= Ip4PayStart(b) THEN Ip4PayStart(b)
    ELSE MinOf(Ip4PayStart(b) + MaxOf(Ip4TotLen(b) - Ip4Ihl(b) * 4, 0), Len(b))

(* IPv6 at offset 14 *)
Ip6OK(b)      == Len(b) >= 14 + 40
Ip6Ver(b)     == U8(b, 14) \div 16
Ip6PLen(b)    == U16(b, 18)
Ip6Nh(b)      == U8(b, 20)
Ip6Hlim(b)    == U8(b, 21)
Ip6Src(b)     == Bytes(b, 22, 38)
Ip6Dst(b)     == Bytes(b, 38, 54)
Ip6PayStart(b) == 54
Ip6PayEnd(b)  == IF Len(b) <= 54 THEN 54 ELSE MinOf(54 + Ip6PLen(b), Len(b))

PROTO_ICMP   == 1
PROTO_TCP    == 6
PROTO_UDP    == 17
PROTO_ICMP6  == 58

(* ICMP / ICMPv6 in region [s,e) *)
IcmpOK(s, e)      == e - s >= 4
IcmpType(b, s)    == U8(b, s)
IcmpCode(b, s)    == U8(b, s + 1)
NsOK(s, e)        == e - s >= 24
NsTarget(b, s)    == Bytes(b, s + 8, s + 24)

(* TCP in region [s,e) *)
TcpOK(s, e)       == e - s >= 20
TcpSport(b, s)    == U16(b, s)
TcpDport(b, s)    == U16(b, s + 2)
TcpSeq(b, s)      == U32(b, s + 4)
TcpAck(b, s)      == U32(b, s + 8)
TcpDoff(b, s)     == U8(b, s + 12) \div 16
TcpFlags(b, s)    == (U8(b, s + 12) % 2) * 256 + U8(b, s + 13)      \* 9 bits
TcpWindow(b, s)   == U16(b, s + 14)
TcpPayStart(b, s, e) ==
    LET st == s + 20 + (IF TcpDoff(b, s) > 5 THEN TcpDoff(b, s) * 4 - 20 ELSE 0)
    IN  IF e <= st THEN e ELSE st

F_FIN == 1
F_SYN == 2
F_RST == 4
F_PSH == 8
F_ACK == 16
F_URG == 32
F_ECE == 64
F_CWR == 128
F_NS  == 256
HasFlag(fl, f) == (fl \div f) % 2 = 1

(* UDP in region [s,e) *)
UdpOK(s, e)       == e - s >= 8
UdpSport(b, s)    == U16(b, s)
UdpDport(b, s)    == U16(b, s + 2)
UdpLen(b, s)      == U16(b, s + 4)
UdpCsum(b, s)     == U16(b, s + 6)

(***************************************************************************)
(* Well-formedness of an emitted frame (property C04).  Each operator      *)
(* returns the set of names of the clauses that fail; {} means well formed.*)
(***************************************************************************)
Fails(name, ok) == IF ok THEN {} ELSE {name}

(* header length of a reply, in 32-bit words (5 when the field is unusable) *)
RIhl(r) == IF Len(r) >= 15 /\ Ip4Ihl(r) >= 5 /\ 14 + Ip4Ihl(r) * 4 <= Len(r) THEN Ip4Ihl(r) ELSE 5

WFIp4(r) ==
    IF Len(r) < 34 THEN {"ip4-short"}
    ELSE
      Fails("ip4-version", Ip4Ver(r) = 4)
      \cup Fails("ip4-ihl", Ip4Ihl(r) >= 5 /\ 14 + Ip4Ihl(r) * 4 <= Len(r))   \* IHL matches a header that is there
      \cup Fails("ip4-total-length", Ip4TotLen(r) = Len(r) - 14)
      \cup Fails("ip4-fragmented", (Ip4FlagsFrag(r) % 16384) = 0)    \* MF = 0, offset = 0
      \cup Fails("ip4-ttl", Ip4Ttl(r) >= 1)
      \cup Fails("ip4-header-checksum", CsumOK(r, 14, 14 + RIhl(r) * 4, 0))

WFIp6(r) ==
    IF Len(r) < 54 THEN {"ip6-short"}
    ELSE
      Fails("ip6-version", Ip6Ver(r) = 6)
      \cup Fails("ip6-payload-length", Ip6PLen(r) = Len(r) - 54)
      \cup Fails("ip6-hop-limit", Ip6Hlim(r) >= 1)

(* L4 region of a reply and its pseudo-header sum *)
L4Start(r) == IF EthType(r) = ETH_IP4 THEN 14 + RIhl(r) * 4 ELSE 54
PseudoOf(r, proto) ==
    IF EthType(r) = ETH_IP4
    THEN Pseudo4(Ip4Src(r), Ip4Dst(r), proto, Len(r) - L4Start(r))
    ELSE Pseudo6(Ip6Src(r), Ip6Dst(r), proto, Len(r) - 54)
(* where the data of a TCP reply begins (data offset 5 when the field is unusable) *)
RDoff(r) == LET s == L4Start(r) IN
            IF Len(r) >= s + 20 /\ TcpDoff(r, s) >= 5 /\ s + TcpDoff(r, s) * 4 <= Len(r) THEN TcpDoff(r, s) ELSE 5
TcpDataStartR(r) == L4Start(r) + RDoff(r) * 4

WFIcmp4(r) ==
    IF Len(r) < L4Start(r) + 4 THEN {"icmp-short"}
    ELSE Fails("icmp-checksum", CsumOK(r, L4Start(r), Len(r), 0))

WFIcmp6(r) ==
    IF Len(r) < 54 + 4 THEN {"icmp6-short"}
    ELSE Fails("icmp6-checksum", CsumOK(r, 54, Len(r), PseudoOf(r, PROTO_ICMP6)))
         \cup (IF IcmpType(r, 54) = 136
               THEN Fails("na-hop-limit-255", Ip6Hlim(r) = 255) ELSE {})

WFTcp(r) ==
    LET s == L4Start(r) IN
    IF Len(r) < s + 20 THEN {"tcp-short"}
    ELSE Fails("tcp-checksum", CsumOK(r, s, Len(r), PseudoOf(r, PROTO_TCP)))
         \cup Fails("tcp-data-offset", TcpDoff(r, s) >= 5 /\ s + TcpDoff(r, s) * 4 <= Len(r))   \* matches a header that is there
         \cup (IF HasFlag(TcpFlags(r, s), F_SYN) /\ HasFlag(TcpFlags(r, s), F_ACK)
               THEN Fails("synack-window", TcpWindow(r, s) # 0) ELSE {})

WFUdp(r) ==
    LET s == L4Start(r) IN
    IF Len(r) < s + 8 THEN {"udp-short"}
    ELSE Fails("udp-length", UdpLen(r, s) = Len(r) - s)
         \cup (IF UdpCsum(r, s) = 0
               THEN Fails("udp6-zero-checksum", EthType(r) = ETH_IP4)   \* "no checksum" is legal on IPv4 only
               ELSE Fails("udp-checksum", CsumOK(r, s, Len(r), PseudoOf(r, PROTO_UDP))))

WF(r) ==
    IF Len(r) < 14 THEN {"eth-short"}
    ELSE IF EthType(r) = ETH_ARP THEN Fails("arp-short", Len(r) >= 42)
    ELSE IF EthType(r) = ETH_IP4 THEN
        LET w == WFIp4(r) IN
        IF "ip4-short" \in w THEN w
        ELSE w \cup (CASE Ip4Proto(r) = PROTO_ICMP -> WFIcmp4(r)
                       [] Ip4Proto(r) = PROTO_TCP  -> WFTcp(r)
                       [] Ip4Proto(r) = PROTO_UDP  -> WFUdp(r)
                       [] OTHER -> {"ip4-unexpected-protocol"})
    ELSE IF EthType(r) = ETH_IP6 THEN
        LET w == WFIp6(r) IN
        IF "ip6-short" \in w THEN w
        ELSE w \cup (CASE Ip6Nh(r) = PROTO_ICMP6 -> WFIcmp6(r)
                       [] Ip6Nh(r) = PROTO_TCP   -> WFTcp(r)
                       [] Ip6Nh(r) = PROTO_UDP   -> WFUdp(r)
                       [] OTHER -> {"ip6-unexpected-protocol"})
    ELSE {"eth-unexpected-ethertype"}
=============================================================================
