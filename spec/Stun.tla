-------------------------------- MODULE Stun --------------------------------
(***************************************************************************)
(* STUN (property C15).  A Binding Request, with or without the RFC 5389   *)
(* magic cookie, is answered with a Binding Success Response: same 128-bit *)
(* transaction id, message length = attribute bytes that follow, and a     *)
(* MAPPED-ADDRESS whose family, address and port are the IP version,       *)
(* source address and source port of the request.                          *)
(***************************************************************************)
EXTENDS Integers, Sequences, FiniteSets

SU16(b, o) == b[o + 1] * 256 + b[o + 2]
Pad4(n) == ((n + 3) \div 4) * 4

StunType(p)   == SU16(p, 0)
StunLen(p)    == SU16(p, 2)
(* class / method bits of RFC 5389 (the two top bits must be zero) *)
StunClass(p)  == ((p[1] % 2) * 2) + ((p[2] \div 16) % 2)
StunMethod(p) == ((p[1] \div 2) % 32) * 128 + ((p[2] \div 32) * 16) + (p[2] % 16)
StunTopBitsZero(p) == p[1] < 64

Min4(a, b) == IF a < b THEN a ELSE b

(* TLV walk over [o, e): [ok, a] with a the sequence of <<type, length,    *)
(* value offset>>; ok is FALSE when an attribute overruns; values are      *)
(* padded to 4 bytes                                                       *)
RECURSIVE StunWalk(_, _, _, _)
StunWalk(p, o, e, acc) ==
    IF o = e THEN [ ok |-> TRUE, a |-> acc ]
    ELSE IF o + 4 > e THEN [ ok |-> FALSE, a |-> acc ]
    ELSE LET l == SU16(p, o + 2) IN
         IF o + 4 + l > e THEN [ ok |-> FALSE, a |-> acc ]
         ELSE StunWalk(p, Min4(o + 4 + Pad4(l), e), e, Append(acc, << SU16(p, o), l, o + 4 >>))


ATTR_MAPPED == 1
ATTR_CHANGE == 3

(* A clean Binding Request: type 0x0001, declared length = what follows,   *)
(* attribute list tiles the body, every length a multiple of four, at most *)
(* one CHANGE-REQUEST (of length 4) and no address attributes.             *)
StunCleanRequest(p) ==
    /\ Len(p) >= 20
    /\ StunType(p) = 1
    /\ StunLen(p) = Len(p) - 20
    /\ LET w == StunWalk(p, 20, Len(p), << >>)
           a == w.a
       IN
       /\ w.ok
       /\ \A i \in 1..Len(a) : /\ a[i][2] % 4 = 0
                               /\ a[i][1] \notin { 1, 2, 4, 5, 32 }        \* no (XOR-)MAPPED/RESPONSE/SOURCE/CHANGED-ADDRESS
                               /\ (a[i][1] = ATTR_CHANGE => a[i][2] = 4)
       /\ Cardinality({ i \in 1..Len(a) : a[i][1] = ATTR_CHANGE }) <= 1

(* change-port flag of the (single) CHANGE-REQUEST of a clean request *)
StunChangePort(p) ==
    LET a == StunWalk(p, 20, Len(p), << >>).a IN
    \E i \in 1..Len(a) : a[i][1] = ATTR_CHANGE /\ (p[a[i][3] + 4] \div 2) % 2 = 1

(* The source-port shifts the statements allow for the answer to p: decided by the         *)
(* attributes inside the declared message length - bytes after it are not part of the     *)
(* message.  Where the attribute list is ambiguous (overrun, lengths that are not         *)
(* multiples of four, several or odd-sized CHANGE-REQUESTs) both are accepted.            *)
StunShift(p) ==
    IF Len(p) < 20 \/ Len(p) < 20 + StunLen(p) THEN { 0, 1 }
    ELSE LET w == StunWalk(p, 20, 20 + StunLen(p), << >>)
             a == w.a
             ch == { i \in 1..Len(a) : a[i][1] = ATTR_CHANGE }
         IN IF ~w.ok \/ \E i \in 1..Len(a) : a[i][2] % 4 # 0 THEN { 0, 1 }
            ELSE IF ch = {} THEN { 0 }
            ELSE IF \A i \in ch : a[i][2] = 4
                 THEN (IF \A i \in ch : (p[a[i][3] + 4] \div 2) % 2 = 1 THEN { 1 }         \* every one asks for it
                       ELSE IF \A i \in ch : (p[a[i][3] + 4] \div 2) % 2 = 0 THEN { 0 }    \* none does
                       ELSE { 0, 1 })           \* contradictory attributes: either, but never further than the next port
                 ELSE { 0, 1 }

(* messages that are not binding requests: other classes, other methods *)
StunOtherClassOrMethod(p) ==
    Len(p) >= 20 /\ StunTopBitsZero(p) /\ (StunClass(p) # 0 \/ StunMethod(p) # 1)

(* reply-typed STUN messages (C12): indications, success and error responses *)
StunReplyTyped(p) == Len(p) >= 20 /\ StunTopBitsZero(p) /\ StunClass(p) # 0 /\ StunLen(p) = Len(p) - 20

IsStunResponse(r) == Len(r) >= 20 /\ r[1] < 64 /\ StunClass(r) \in { 2, 3 }

StunSuccessFails(p, r, ver, src, sport) ==
    IF Len(r) < 20 THEN { "stun-header" }
    ELSE
    (IF StunType(r) = 257 THEN {} ELSE { "stun-binding-success-type" })             \* 0x0101
    \cup (IF SubSeq(r, 5, 20) = SubSeq(p, 5, 20) THEN {} ELSE { "stun-transaction-id" })
    \cup (IF StunLen(r) = Len(r) - 20 THEN {} ELSE { "stun-message-length" })
    \cup LET w == StunWalk(r, 20, Len(r), << >>)
             a == w.a
         IN
         IF ~w.ok THEN { "stun-attribute-list" }
         ELSE IF \E i \in 1..Len(a) :
                    /\ a[i][1] = ATTR_MAPPED
                    /\ a[i][2] = (IF ver = 4 THEN 8 ELSE 20)
                    /\ r[a[i][3] + 2] = (IF ver = 4 THEN 1 ELSE 2)
                    /\ SU16(r, a[i][3] + 2) = sport
                    /\ SubSeq(r, a[i][3] + 5, a[i][3] + a[i][2]) = src
              THEN {} ELSE { "stun-mapped-address" }
=============================================================================
