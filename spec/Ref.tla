-------------------------------- MODULE Ref ---------------------------------
(***************************************************************************)
(* The reference responder: for every frame and state, the concrete        *)
(* observation (reply bytes, event log, table size) the reference model    *)
(* itself produces.  Model checking (MCStack) runs Handle(b, RefObs(b))    *)
(* over a frame domain and checks that Judge finds nothing to object to:   *)
(* the reference model satisfies every clause of the twenty properties in  *)
(* every reachable connection state.  The same behaviours are then         *)
(* replayed into the implementation (specification -> implementation).     *)
(*                                                                         *)
(* Choices the statements leave open are made as a real stack would: TTL / *)
(* hop limit 64, window 65535, IP id 0, DF set.                            *)
(***************************************************************************)
EXTENDS Stack

(* text of the universal address (RFC 5952 address "." port-hi "." port-lo) of the endpoint *)
(* a frame contacts: rendering addresses is outside TLA+, the model's frame domain carries it *)
CONSTANT UaddrTable
UaddrOf(b) == IF b \in DOMAIN UaddrTable THEN UaddrTable[b] ELSE << >>

B16(n) == << n \div 256, n % 256 >>
B32(p) == B16(p[1]) \o B16(p[2])
Cksum(sum) == 65535 - Fold16(Fold16(sum))          \* value to store given the one's-complement sum of the rest

PutAt(q, o, v) == [ i \in 1..Len(q) |-> IF i > o /\ i <= o + Len(v) THEN v[i - o] ELSE q[i] ]

(* ---- layer 3 wrapping ---- *)
RefIp4(src, dst, proto, l4) ==
    LET tot == 20 + Len(l4)
        hdr0 == << 69, 0 >> \o B16(tot) \o << 0, 0, 64, 0, 64, proto, 0, 0 >> \o src \o dst
        hdr == PutAt(hdr0, 10, B16(Cksum(SumSeq16(hdr0))))
    IN hdr \o l4

RefIp6(src, dst, nh, l4, hlim) ==
    << 96, 0, 0, 0 >> \o B16(Len(l4)) \o << nh, hlim >> \o src \o dst \o l4

RefEth(b, ethertype, payload) == EthSrc(b) \o cfg.mac \o B16(ethertype) \o payload

RefL3(b, proto, l4, src) ==
    IF EthType(b) = ETH_IP4
    THEN RefEth(b, ETH_IP4, RefIp4(src, Ip4Src(b), proto, l4))
    ELSE RefEth(b, ETH_IP6, RefIp6(src, Ip6Src(b), proto, l4, IF proto = PROTO_ICMP6 /\ l4[1] = 136 THEN 255 ELSE 64))

PseudoFor(b, src, proto, n) ==
    IF EthType(b) = ETH_IP4 THEN Pseudo4(src, Ip4Src(b), proto, n) ELSE Pseudo6(src, Ip6Src(b), proto, n)

(* ---- layer 4 ---- *)
RefIcmp(b, type, body, src) ==
    LET m0 == << type, 0, 0, 0 >> \o body
        ps == IF EthType(b) = ETH_IP4 THEN 0 ELSE PseudoFor(b, src, PROTO_ICMP6, Len(m0))
    IN PutAt(m0, 2, B16(Cksum(SumWords(m0, 0, Len(m0), ps))))

RefTcpSeg(b, flags, seq, ack, payload, sportShift) ==
    LET t == TcpCtx(b)
        s0 == B16((t.dport + sportShift) % 65536) \o B16(t.sport) \o B32(seq) \o B32(ack)
              \o << 80 + (flags \div 256), flags % 256 >> \o << 255, 255, 0, 0, 0, 0 >> \o payload
        ps == PseudoFor(b, t.dst, PROTO_TCP, Len(s0))
    IN PutAt(s0, 16, B16(Cksum(SumWords(s0, 0, Len(s0), ps))))

RefUdpSeg(b, payload, sportShift) ==
    LET u == UdpCtx(b)
        s0 == B16((u.dport + sportShift) % 65536) \o B16(u.sport) \o B16(8 + Len(payload)) \o << 0, 0 >> \o payload
        ps == PseudoFor(b, u.dst, PROTO_UDP, Len(s0))
        c  == Cksum(SumWords(s0, 0, Len(s0), ps))
    IN PutAt(s0, 6, B16(IF c = 0 THEN 65535 ELSE c))

(* ---- application replies of the reference responder ---- *)
REF_HTTP_BODY == << 60, 104, 49, 62, 52, 48, 49, 60, 47, 104, 49, 62, 10 >>                \* "<h1>401</h1>\n"
REF_HTTP_HEAD ==                                                                          \* status line and headers
    << 72, 84, 84, 80, 47, 49, 46, 49, 32, 52, 48, 49, 32, 85, 110, 97, 117, 116, 104, 111, 114, 105, 122, 101, 100, 13, 10,
       87, 87, 87, 45, 65, 117, 116, 104, 101, 110, 116, 105, 99, 97, 116, 101, 58, 32, 66, 97, 115, 105, 99, 32, 114, 101, 97, 108, 109, 61, 34, 120, 34, 13, 10,
       67, 111, 110, 116, 101, 110, 116, 45, 76, 101, 110, 103, 116, 104, 58, 32, 49, 51, 13, 10, 13, 10 >>
REF_GHOST == GHOST_MAGIC \o << 22, 0, 0, 0, 1, 0, 0, 0 >> \o << 120, 156, 99, 0, 0, 0, 1, 0, 1 >>   \* zlib of one NUL byte
REF_GHOST_INFLATED == 1

RefStun(seg, ctx) ==
    LET v4 == ctx.ver = 4
        attr == << 0, 1, 0, IF v4 THEN 8 ELSE 20, 0, IF v4 THEN 1 ELSE 2 >> \o B16(ctx.sport) \o ctx.src
    IN << 1, 1 >> \o B16(Len(attr)) \o SubSeq(seg, 5, 20) \o attr

RECURSIVE RefDnsAnswers(_, _, _, _)
RefDnsAnswers(seg, q, i, dst) ==
    IF i > Len(q) THEN << >>
    ELSE SubSeq(seg, q[i][1] + 1, q[i][2]) \o << 0, 1, 0, 1, 0, 0, 168, 192, 0, 4 >> \o dst
         \o RefDnsAnswers(seg, q, i + 1, dst)

RefDns(seg, ctx) ==
    LET w == QList(seg) IN
    SubSeq(seg, 1, 2) \o << 128 + DnsOpcode(seg) * 8 + 4 + DnsRD(seg), 0 >> \o SubSeq(seg, 5, 6) \o SubSeq(seg, 5, 6) \o << 0, 0, 0, 0 >>
    \o SubSeq(seg, 13, w.end) \o RefDnsAnswers(seg, w.q, 1, ctx.dst)

RefRpcBody(c, ctx, uaddr) ==
    LET versOK == c.vers[1] = 0 /\ c.vers[2] >= 2 /\ c.vers[2] <= 4
        pad == [ i \in 1..(RPad4(Len(uaddr)) - Len(uaddr)) |-> 0 ]
    IN B32(c.xid) \o << 0, 0, 0, 1, 0, 0, 0, 0, 0, 0, 0, 0, 0, 0, 0, 0 >>
       \o (IF ~versOK THEN << 0, 0, 0, 2, 0, 0, 0, 2, 0, 0, 0, 4 >>
           ELSE IF c.proc = << 0, 0 >> THEN << 0, 0, 0, 0 >>
           ELSE IF c.prog # PORTMAP THEN << 0, 0, 0, 1 >>
           ELSE IF c.proc = << 0, 3 >> /\ c.vers[2] = 2 THEN << 0, 0, 0, 0 >> \o B32(P32(ctx.dport))
           ELSE IF c.proc = << 0, 3 >> THEN << 0, 0, 0, 0 >> \o B32(P32(Len(uaddr))) \o uaddr \o pad
           ELSE << 0, 0, 0, 3 >>)

(* XDR string: length, bytes, zero padding to a multiple of four *)
XdrStr(q) == B32(P32(Len(q))) \o q \o [ i \in 1..(RPad4(Len(q)) - Len(q)) |-> 0 ]
OWNER == << 115, 117, 112, 101, 114, 117, 115, 101, 114 >>                     \* "superuser"

RefRpcDump(c, ctx, uaddr) ==
    B32(c.xid) \o << 0, 0, 0, 1, 0, 0, 0, 0, 0, 0, 0, 0, 0, 0, 0, 0 >> \o << 0, 0, 0, 0 >>
    \o << 0, 0, 0, 1 >> \o B32(PORTMAP) \o B32(c.vers)
    \o (IF c.vers[2] = 2 THEN << 0, 0, 0, 6 >> \o B32(P32(ctx.dport))
        ELSE XdrStr(IF ctx.ver = 4 THEN NETID_TCP ELSE NETID_TCP6) \o XdrStr(uaddr) \o XdrStr(OWNER))
    \o << 0, 0, 0, 0 >>

RefRpc(s, o, ctx, uaddr) ==
    LET c == RpcCall(s, o)
        isDump == c.vers[1] = 0 /\ c.vers[2] >= 2 /\ c.vers[2] <= 4 /\ c.prog = PORTMAP /\ c.proc = << 0, 4 >>
        body == IF isDump THEN RefRpcDump(c, ctx, uaddr) ELSE RefRpcBody(c, ctx, uaddr)
    IN
    IF o = 4 THEN << 128, 0 >> \o B16(Len(body)) \o body ELSE body

(* ---- SMB (little endian) ---- *)
LE16(n) == << n % 256, n \div 256 >>
Zeros(n) == [ i \in 1..n |-> 0 ]
REF_BLOB == << 96, 6, 6, 4, 43, 6, 1, 5 >>                                        \* some security blob
RefNbt(m) == << 0, Len(m) \div 65536 >> \o B16(Len(m) % 65536) \o m

RefSmb1(seg, body) ==
    RefNbt(<< 255, 83, 77, 66, S1Cmd(seg), 0, 0, 0, 0, 152, 7, 200 >> \o SubSeq(seg, 4 + 13, 4 + 14) \o Zeros(10)
           \o SubSeq(seg, 4 + 25, 4 + 32) \o body)
RefSmb1Negotiate(seg) ==
    RefSmb1(seg, << 17 >> \o LE16(0) \o Zeros(32) \o LE16(16 + Len(REF_BLOB)) \o Zeros(16) \o REF_BLOB)
RefSmb1SessionSetup(seg) ==
    RefSmb1(seg, << 4, 255, 0, 0, 0, 0, 0 >> \o LE16(Len(REF_BLOB)) \o LE16(Len(REF_BLOB) + 2) \o REF_BLOB \o << 0, 0 >>)

RefSmb2(seg, body) ==
    RefNbt(<< 254, 83, 77, 66, 64, 0, 0, 0, 0, 0, 0, 0 >> \o LE16(S2Cmd(seg)) \o << 1, 0, 1, 0, 0, 0, 0, 0, 0, 0 >>
           \o S2Corr(seg) \o Zeros(16) \o body)
RefSmb2Negotiate(seg) ==
    LET d == S2NegotiateDialects(seg)
        pick == IF 514 \in { d[i] : i \in 1..Len(d) } THEN 514 ELSE 528
    IN RefSmb2(seg, LE16(65) \o LE16(1) \o LE16(pick) \o LE16(0) \o Zeros(16) \o Zeros(16) \o Zeros(16)
                    \o LE16(128) \o LE16(Len(REF_BLOB)) \o Zeros(4) \o REF_BLOB)
RefSmb2SessionSetup(seg) ==
    RefSmb2(seg, LE16(9) \o LE16(0) \o LE16(72) \o LE16(Len(REF_BLOB)) \o REF_BLOB)

(* reference application reply; << >> = no application data.  Only "must" *)
(* requests are answered.                                                  *)
RefApp(transport, before, seg0, ctx, uaddr) ==
    LET c == Classify(transport, before, seg0, ctx)
        seg == AppMsg(transport, before, seg0)
    IN
    IF c.ans # "must" THEN << >>
    ELSE CASE c.proto = "HTTP"  -> REF_HTTP_HEAD \o REF_HTTP_BODY
           [] c.proto = "SSH"   -> SSH_REPLY
           [] c.proto = "GHOST" -> REF_GHOST
           [] c.proto = "STUN"  -> RefStun(seg, ctx)
           [] c.proto = "DNS"   -> RefDns(seg, ctx)
           [] c.proto = "RPC_UDP" -> RefRpc(seg, 0, ctx, uaddr)
           [] c.proto = "RPC_TCP" -> LET st == before \o seg0
                                         b  == RpcRecordStart(st, 0, Len(before), 6)
                                     IN RefRpc(SubSeq(st, b + 1, Len(st)), 4, ctx, uaddr)
           [] c.proto = "SMB1" -> IF S1Cmd(seg) = 114 THEN RefSmb1Negotiate(seg) ELSE RefSmb1SessionSetup(seg)
           [] c.proto = "SMB2" -> IF S2Cmd(seg) = 0 THEN RefSmb2Negotiate(seg) ELSE RefSmb2SessionSetup(seg)
           [] OTHER -> << >>

RefShift(transport, before, seg) ==
    LET sh == AppPortShift(transport, before, seg) IN IF sh = { 1 } THEN 1 ELSE 0

(* ---- the event log of the reference responder ---- *)
RefLogEv(b, layer, verb) ==
    IF layer = "arp"
    THEN [ layer |-> layer, verb |-> verb, ms |-> ArpSha(b), md |-> ArpTha(b), is |-> ArpSpa(b), id |-> ArpTpa(b),
           tr |-> -1, ps |-> -1, pd |-> -1, bad |-> 0 ]
    ELSE IF layer = "eth"
    THEN [ layer |-> layer, verb |-> verb, ms |-> EthSrc(b), md |-> EthDst(b), is |-> << >>, id |-> << >>,
           tr |-> -1, ps |-> -1, pd |-> -1, bad |-> 0 ]
    ELSE LET x == L3Ctx(b) IN
         [ layer |-> layer, verb |-> verb, ms |-> EthSrc(b), md |-> EthDst(b), is |-> x.src, id |-> x.dst,
           tr |-> IF layer \in { "ipv4", "ipv6" } THEN -1 ELSE x.proto,
           ps |-> IF layer \in { "tcp", "udp" } THEN U16(b, x.s) ELSE -1,
           pd |-> IF layer \in { "tcp", "udp" } THEN U16(b, x.s + 2) ELSE -1, bad |-> 0 ]

RefLog(b, layers, answered) ==
    IF cfg.logger = "none" THEN << >>
    ELSE LET n == Len(layers) IN
         [ i \in 1..(2 * n) |->
             IF i <= n THEN RefLogEv(b, layers[i], "recv")
             ELSE RefLogEv(b, layers[2 * n + 1 - i], IF answered THEN "send" ELSE "drop") ]

(* ---- the reference observation ---- *)
RefAux(b) == [ inflated |-> REF_GHOST_INFLATED, uaddr |-> UaddrOf(b), chain |-> 0, grp |-> 0, pair |-> 0, seg |-> 0 ]

RefReply(b) ==
    LET o == ExpectL2(b) IN
    CASE o.kind = "arp" /\ o.ans = "must" ->
            RefEth(b, ETH_ARP, << 0, 1, 8, 0, 6, 4, 0, 2 >> \o cfg.mac \o ArpTpa(b) \o ArpSha(b) \o ArpSpa(b))
      [] o.kind = "echo4" -> LET x == L3Ctx(b) IN RefL3(b, PROTO_ICMP, RefIcmp(b, 0, Bytes(b, x.s + 4, x.e), x.dst), x.dst)
      [] o.kind = "echo6" -> LET x == L3Ctx(b) IN RefL3(b, PROTO_ICMP6, RefIcmp(b, 129, Bytes(b, x.s + 4, x.e), x.dst), x.dst)
      [] o.kind = "na" ->
            LET x == L3Ctx(b)  tgt == NsTarget(b, x.s) IN
            RefL3(b, PROTO_ICMP6, RefIcmp(b, 136, << 96, 0, 0, 0 >> \o tgt \o << 2, 1 >> \o cfg.mac, tgt), tgt)
      [] o.kind = "synack" ->
            LET t == TcpCtx(b) IN RefL3(b, PROTO_TCP, RefTcpSeg(b, F_SYN + F_ACK, ck[t.flow], Add32(t.seq, 1), << >>, 0), t.dst)
      [] o.kind = "finack" /\ o.ans = "must" ->
            LET t == TcpCtx(b) IN RefL3(b, PROTO_TCP, RefTcpSeg(b, F_FIN + F_ACK, t.ack, Add32(t.seq, 1), << >>, 0), t.dst)
      [] o.kind = "data" /\ o.ans = "must" ->
            LET t == TcpCtx(b)
                app == RefApp("tcp", StreamBefore(t.flow), TcpPayload(b), AppCtxTcp(b), UaddrOf(b))
            IN RefL3(b, PROTO_TCP,
                     RefTcpSeg(b, IF app = << >> THEN F_ACK ELSE F_ACK + F_PSH, t.ack, Add32(t.seq, t.pe - t.ps), app,
                               RefShift("tcp", StreamBefore(t.flow), TcpPayload(b))), t.dst)
      [] o.kind = "udp" ->
            LET u == UdpCtx(b)
                app == RefApp("udp", << >>, UdpPayload(b), AppCtxUdp(b), UaddrOf(b))
            IN IF app = << >> THEN << >>
               ELSE RefL3(b, PROTO_UDP, RefUdpSeg(b, app, RefShift("udp", << >>, UdpPayload(b))), u.dst)
      [] OTHER -> << >>

RefObs(b) ==
    LET o == ExpectL2(b)
        r == RefReply(b)
        answered == r # << >>
        grows == answered /\ o.kind = "data" /\ ~Validated(TcpCtx(b).flow)
    IN [ kind |-> IF answered THEN "reply" ELSE "silence", rep |-> r,
         log |-> RefLog(b, o.layers, answered),
         tcb |-> Cardinality(DOMAIN tcb) + (IF grows THEN 1 ELSE 0),
         aux |-> RefAux(b) ]
=============================================================================
