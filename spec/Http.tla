-------------------------------- MODULE Http --------------------------------
(***************************************************************************)
(* HTTP (property C13).  Request language as two byte-at-a-time automata   *)
(* run after the method signature ("VERB /", module Sig):                  *)
(*   Strict  - the clean grammar of the statement: request-target without  *)
(*             SP/CR/LF, "HTTP/" DIGIT+ "." DIGIT+, line ends CRLF or LF,  *)
(*             header lines  name ":" value, terminating empty line.       *)
(*             Reaching CONTENT means: this MUST be answered.              *)
(*   Loose   - everything that is not one of the faults the statement      *)
(*             names (malformed request line, header line without colon,   *)
(*             not yet terminated).  Not reaching CONTENT means: this MUST *)
(*             NOT be answered.                                            *)
(* Strings in between (stray CR, empty version digits, CR/LF inside the    *)
(* target, odd header names) are unspecified: either behaviour is accepted.*)
(* `at` is the number of stream bytes consumed when the request completed  *)
(* (0 = not complete): the stream byte that triggers the reply (C11).      *)
(***************************************************************************)
EXTENDS Integers, Sequences, SequencesExt

SP == 32
CR == 13
LF == 10
COLON == 58
DOT == 46
HT == 9
IsDigit(c) == c >= 48 /\ c <= 57
HTTPSLASH == << 72, 84, 84, 80, 47 >>       \* "HTTP/"
(* RFC 7230 tchar: what a header name is made of in the clean grammar *)
IsTokenChar(c) == (c >= 48 /\ c <= 57) \/ (c >= 65 /\ c <= 90) \/ (c >= 97 /\ c <= 122)
                  \/ c \in { 33, 35, 36, 37, 38, 39, 42, 43, 45, 46, 94, 95, 96, 124, 126 }

(* ---- loose automaton (states are strings; "K0".."K4" spell HTTP/) ---- *)
LooseStep(st, c) ==
    CASE st = "SPACE"  -> IF c = SP THEN "URI" ELSE "FAIL"
      [] st = "URI"    -> IF c = SP THEN "K0" ELSE "URI"
      [] st = "K0"     -> IF c = 72 THEN "K1" ELSE "FAIL"
      [] st = "K1"     -> IF c = 84 THEN "K2" ELSE "FAIL"
      [] st = "K2"     -> IF c = 84 THEN "K3" ELSE "FAIL"
      [] st = "K3"     -> IF c = 80 THEN "K4" ELSE "FAIL"
      [] st = "K4"     -> IF c = 47 THEN "VMAJ" ELSE "FAIL"
      [] st = "VMAJ"   -> IF c = DOT THEN "VMIN" ELSE IF IsDigit(c) THEN "VMAJ" ELSE "FAIL"
      [] st = "VMIN"   -> IF c = CR THEN "VMIN" ELSE IF c = LF THEN "FSTART"
                          ELSE IF IsDigit(c) THEN "VMIN" ELSE "FAIL"
      [] st = "FSTART" -> IF c = CR THEN "FSTART" ELSE IF c = LF THEN "CONTENT" ELSE "FNAME"
      [] st = "FNAME"  -> IF c = CR \/ c = LF THEN "FAIL" ELSE IF c = COLON THEN "FVALUE" ELSE "FNAME"
      [] st = "FVALUE" -> IF c = CR THEN "FVALUE" ELSE IF c = LF THEN "FSTART" ELSE "FVALUE"
      [] OTHER -> st

(* ---- strict automaton ---- *)
StrictStep(st, c) ==
    CASE st = "SPACE"  -> IF c = SP THEN "URI" ELSE "FAIL"
      [] st = "URI"    -> IF c = SP THEN "K0" ELSE IF c = CR \/ c = LF THEN "FAIL" ELSE "URI"
      [] st = "K0"     -> IF c = 72 THEN "K1" ELSE "FAIL"
      [] st = "K1"     -> IF c = 84 THEN "K2" ELSE "FAIL"
      [] st = "K2"     -> IF c = 84 THEN "K3" ELSE "FAIL"
      [] st = "K3"     -> IF c = 80 THEN "K4" ELSE "FAIL"
      [] st = "K4"     -> IF c = 47 THEN "VMAJ0" ELSE "FAIL"
      [] st = "VMAJ0"  -> IF IsDigit(c) THEN "VMAJ1" ELSE "FAIL"
      [] st = "VMAJ1"  -> IF c = DOT THEN "VMIN0" ELSE "FAIL"            \* "HTTP/x.y": one digit each (more: unspecified)
      [] st = "VMIN0"  -> IF IsDigit(c) THEN "VMIN1" ELSE "FAIL"
      [] st = "VMIN1"  -> IF c = CR THEN "EOL1" ELSE IF c = LF THEN "FSTART" ELSE "FAIL"
      [] st = "EOL1"   -> IF c = LF THEN "FSTART" ELSE "FAIL"
      [] st = "FSTART" -> IF c = CR THEN "EOL2" ELSE IF c = LF THEN "CONTENT"
                          ELSE IF IsTokenChar(c) THEN "FNAME" ELSE "FAIL"
      [] st = "EOL2"   -> IF c = LF THEN "CONTENT" ELSE "FAIL"
      [] st = "FNAME"  -> IF c = COLON THEN "FVALUE" ELSE IF IsTokenChar(c) THEN "FNAME" ELSE "FAIL"   \* header names are tokens
      [] st = "FVALUE" -> IF c = CR THEN "EOL3" ELSE IF c = LF THEN "FSTART" ELSE "FVALUE"
      [] st = "EOL3"   -> IF c = LF THEN "FSTART" ELSE "FAIL"
      [] OTHER -> st

(* run from byte index i (1-based) to the end; CONTENT and FAIL are absorbing. *)
(* A left fold (evaluated iteratively by TLC): [st, at] with at the index of   *)
(* the byte that completed the request.                                         *)
LooseRun(s, i, st0) ==
    FoldLeft(LAMBDA a, k : IF a.st = "CONTENT" \/ a.st = "FAIL" THEN a
                           ELSE LET n == LooseStep(a.st, s[k]) IN [ st |-> n, at |-> IF n = "CONTENT" THEN k ELSE 0 ],
             [ st |-> st0, at |-> 0 ], [ j \in 1..(Len(s) - i + 1) |-> j + i - 1 ])

StrictRun(s, i, st0) ==
    FoldLeft(LAMBDA a, k : IF a.st = "CONTENT" \/ a.st = "FAIL" THEN a
                           ELSE LET n == StrictStep(a.st, s[k]) IN [ st |-> n, at |-> IF n = "CONTENT" THEN k ELSE 0 ],
             [ st |-> st0, at |-> 0 ], [ j \in 1..(Len(s) - i + 1) |-> j + i - 1 ])

(* n = length of the method (the signature is method SP "/") *)
HttpLoose(s, n)  == LooseRun(s, n + 1, "SPACE")
HttpStrict(s, n) == StrictRun(s, n + 1, "SPACE")

(***************************************************************************)
(* Response relation: an "HTTP/1.1 401" response carrying a                *)
(* WWW-Authenticate challenge whose Content-Length equals the number of    *)
(* body bytes sent.                                                        *)
(***************************************************************************)
Lower(c) == IF c >= 65 /\ c <= 90 THEN c + 32 ELSE c

RECURSIVE EqNoCase(_, _, _, _)
EqNoCase(b, o, lit, k) ==        \* b[o+1 ..] matches lit[k ..] ignoring case
    IF k > Len(lit) THEN TRUE
    ELSE IF o + 1 > Len(b) THEN FALSE
    ELSE IF Lower(b[o + 1]) # Lower(lit[k]) THEN FALSE
    ELSE EqNoCase(b, o + 1, lit, k + 1)

STATUS401 == << 72, 84, 84, 80, 47, 49, 46, 49, 32, 52, 48, 49 >>             \* "HTTP/1.1 401"
WWWAUTH == << 119, 119, 119, 45, 97, 117, 116, 104, 101, 110, 116, 105, 99, 97, 116, 101, 58 >>  \* "www-authenticate:"
CONTLEN == << 99, 111, 110, 116, 101, 110, 116, 45, 108, 101, 110, 103, 116, 104, 58 >>          \* "content-length:"

(* offset (0-based) of the first body byte: after the first empty line; 0 if none *)
RECURSIVE BodyStart(_, _)
BodyStart(b, o) ==
    IF o + 1 >= Len(b) THEN 0
    ELSE IF b[o + 1] = LF /\ b[o + 2] = LF THEN o + 2
    ELSE IF o + 3 <= Len(b) /\ b[o + 1] = LF /\ b[o + 2] = CR /\ b[o + 3] = LF THEN o + 3
    ELSE IF o + 4 <= Len(b) /\ b[o + 1] = CR /\ b[o + 2] = LF /\ b[o + 3] = CR /\ b[o + 4] = LF THEN o + 4
    ELSE BodyStart(b, o + 1)

(* offsets of line starts inside the header section [0, hend) *)
RECURSIVE HeaderLineWith(_, _, _, _)
HeaderLineWith(b, o, hend, lit) ==    \* offset just after lit of the first header line starting with lit, or 0
    IF o >= hend THEN 0
    ELSE IF (o = 0 \/ b[o] = LF) /\ EqNoCase(b, o, lit, 1) THEN o + Len(lit)
    ELSE HeaderLineWith(b, o + 1, hend, lit)

RECURSIVE SkipSpaces(_, _)
SkipSpaces(b, o) == IF o + 1 <= Len(b) /\ (b[o + 1] = SP \/ b[o + 1] = HT) THEN SkipSpaces(b, o + 1) ELSE o

RECURSIVE ParseDec(_, _, _, _)
ParseDec(b, o, acc, n) ==      \* decimal number at offset o: [val, digits]
    IF o + 1 <= Len(b) /\ IsDigit(b[o + 1]) /\ n < 9
    THEN ParseDec(b, o + 1, acc * 10 + (b[o + 1] - 48), n + 1)
    ELSE [ val |-> acc, digits |-> n ]

Http401Fails(r) ==
    LET hb == BodyStart(r, 0)
        cl == HeaderLineWith(r, 0, hb, CONTLEN)
        num == ParseDec(r, SkipSpaces(r, cl), 0, 0)
    IN
    (IF Len(r) >= 12 /\ SubSeq(r, 1, 12) = STATUS401 THEN {} ELSE { "status-line-401" })
    \cup (IF hb = 0 THEN { "header-section-terminated" }
          ELSE (IF HeaderLineWith(r, 0, hb, WWWAUTH) # 0 THEN {} ELSE { "www-authenticate-present" })
               \cup (IF cl # 0 /\ num.digits > 0 /\ num.val = Len(r) - hb THEN {}
                     ELSE { "content-length-equals-body" }))

TRANSFENC == << 116, 114, 97, 110, 115, 102, 101, 114, 45, 101, 110, 99, 111, 100, 105, 110, 103, 58 >>   \* "transfer-encoding:"
(* a request (its header block q) that announces a body *)
HttpAnnouncesBody(q) == HeaderLineWith(q, 0, Len(q), CONTLEN) # 0 \/ HeaderLineWith(q, 0, Len(q), TRANSFENC) # 0

IsHttpResponse(r) == Len(r) >= 5 /\ SubSeq(r, 1, 5) = HTTPSLASH
=============================================================================
