-------------------------------- MODULE Sig --------------------------------
(***************************************************************************)
(* The published signature set, as data, and the reference matcher of      *)
(* property C10: the responder of a payload is decided solely by its       *)
(* leading bytes against this set, taking the first signature completed.   *)
(* W stands for "any byte".  End-anchored signatures complete only when    *)
(* the datagram ends exactly there (never in a stream).                    *)
(***************************************************************************)
EXTENDS Integers, Sequences, FiniteSets

W == -1

Sigs == <<
      [ proto |-> "HTTP", name |-> "GET", end |-> FALSE,
        pat |-> << 71, 69, 84, 32, 47 >> ],
      [ proto |-> "HTTP", name |-> "PUT", end |-> FALSE,
        pat |-> << 80, 85, 84, 32, 47 >> ],
      [ proto |-> "HTTP", name |-> "POST", end |-> FALSE,
        pat |-> << 80, 79, 83, 84, 32, 47 >> ],
      [ proto |-> "HTTP", name |-> "HEAD", end |-> FALSE,
        pat |-> << 72, 69, 65, 68, 32, 47 >> ],
      [ proto |-> "HTTP", name |-> "DELETE", end |-> FALSE,
        pat |-> << 68, 69, 76, 69, 84, 69, 32, 47 >> ],
      [ proto |-> "HTTP", name |-> "CONNECT", end |-> FALSE,
        pat |-> << 67, 79, 78, 78, 69, 67, 84, 32, 47 >> ],
      [ proto |-> "HTTP", name |-> "OPTIONS", end |-> FALSE,
        pat |-> << 79, 80, 84, 73, 79, 78, 83, 32, 47 >> ],
      [ proto |-> "HTTP", name |-> "TRACE", end |-> FALSE,
        pat |-> << 84, 82, 65, 67, 69, 32, 47 >> ],
      [ proto |-> "HTTP", name |-> "PATCH", end |-> FALSE,
        pat |-> << 80, 65, 84, 67, 72, 32, 47 >> ],
      [ proto |-> "STUN", name |-> "STUN-magic", end |-> FALSE,
        pat |-> << 0, 1, W, W, 33, 18, 164, 66 >> ],
      [ proto |-> "STUN", name |-> "STUN-empty", end |-> TRUE,
        pat |-> << 0, 1, 0, 0, W, W, W, W, W, W, W, W, W, W, W, W, W, W, W, W >> ],
      [ proto |-> "STUN", name |-> "STUN-change-request", end |-> TRUE,
        pat |-> << 0, 1, 0, 8, W, W, W, W, W, W, W, W, W, W, W, W, W, W, W, W, 0, 3, 0, 4, 0, 0, 0, W >> ],
      [ proto |-> "SSH", name |-> "SSH-2.0", end |-> FALSE,
        pat |-> << 83, 83, 72, 45, 50, 46, 48 >> ],
      [ proto |-> "SSH", name |-> "SSH-1.99", end |-> FALSE,
        pat |-> << 83, 83, 72, 45, 49, 46, 57, 57 >> ],
      [ proto |-> "GHOST", name |-> "Gh0st", end |-> FALSE,
        pat |-> << 71, 104, 48, 115, 116 >> ],
      [ proto |-> "RPC_TCP", name |-> "RPC-TCP", end |-> FALSE,
        pat |-> << W, W, W, W, W, W, W, W, 0, 0, 0, 0, 0, 0, 0, W, 0, 1, 134, W, W, W, W, W, 0, 0, 0, W >> ],
      [ proto |-> "RPC_UDP", name |-> "RPC-UDP", end |-> FALSE,
        pat |-> << W, W, W, W, 0, 0, 0, 0, 0, 0, 0, W, 0, 1, 134, W, W, W, W, W, 0, 0, 0, W >> ],
      [ proto |-> "SMB1", name |-> "SMB1", end |-> FALSE,
        pat |-> << 0, 0, W, W, 255, 83, 77, 66 >> ],
      [ proto |-> "SMB2", name |-> "SMB2", end |-> FALSE,
        pat |-> << 0, 0, W, W, 254, 83, 77, 66 >> ]
   >>

NSig == Len(Sigs)
MaxSigLen == 28

(* p agrees with signature s on the first n positions *)
Agrees(s, p, n) == \A i \in 1..n : Sigs[s].pat[i] = W \/ Sigs[s].pat[i] = p[i]

(* signature s is completed by payload p (datagram: p is all there is) *)
Completes(s, p, datagram) ==
    LET n == Len(Sigs[s].pat) IN
    /\ n <= Len(p)
    /\ Agrees(s, p, n)
    /\ (Sigs[s].end => (datagram /\ Len(p) = n))

(* s can still be completed by a longer stream starting with p *)
Viable(s, p) == /\ ~Sigs[s].end
                /\ Len(p) < Len(Sigs[s].pat)
                /\ Agrees(s, p, Len(p))

(* the first signature completed: least completion position, then list order *)
Winner(p, datagram) ==
    LET c == { s \in 1..NSig : Completes(s, p, datagram) } IN
    IF c = {} THEN 0
    ELSE CHOOSE s \in c : \A t \in c : \/ Len(Sigs[s].pat) < Len(Sigs[t].pat)
                                       \/ (Len(Sigs[s].pat) = Len(Sigs[t].pat) /\ s <= t)

(* reference identification: a protocol name, "none" (no signature can ever *)
(* complete) or, for streams, "undecided" (some signature is still viable)  *)
RefId(p, datagram) ==
    LET w == Winner(p, datagram) IN
    IF w # 0 THEN Sigs[w].proto
    ELSE IF ~datagram /\ \E s \in 1..NSig : Viable(s, p) THEN "undecided"
    ELSE "none"

RefSig(p, datagram) == LET w == Winner(p, datagram) IN IF w = 0 THEN "none" ELSE Sigs[w].name
(* number of leading bytes that decided *)
RefPos(p, datagram) == LET w == Winner(p, datagram) IN IF w = 0 THEN 0 ELSE Len(Sigs[w].pat)

SigProtos == { "HTTP", "STUN", "SSH", "GHOST", "RPC_TCP", "RPC_UDP", "SMB1", "SMB2" }
=============================================================================
