#!/bin/sh
# Build the driver (masscanned with the `verif` feature) from /repo's working tree; everything is offline.
set -e
cd "$(dirname "$0")"
exec python3 harness/build.py
