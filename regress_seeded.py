#!/usr/bin/env python3
"""regress_seeded.py <scratch-dir> <lanes> [tier] [id-substring ...]

Development tool: re-runs, for every seeded change kept under /verif/seeded, the check of the
property it breaks, and reports whether the change is still detected.  Never touches /repo:
each lane applies the patches in its own scratch worktree of /repo and runs a scratch copy of
/verif against it (VERIF_REPO), both under <scratch-dir> (outside /repo and /verif), removed
at the end.  Exit 0 iff every kept change is detected (directories named not-kept-* are
reported but not counted)."""
import json
import os
import shutil
import subprocess
import sys
import threading

VERIF = os.path.dirname(os.path.abspath(__file__))


def sh(cmd, cwd=None, env=None, timeout=None):
    try:
        # own process group, killed as a whole on timeout (a hanging test binary would otherwise spin on)
        p = subprocess.Popen(cmd, cwd=cwd, env=env, stdout=subprocess.PIPE, stderr=subprocess.STDOUT, text=True, start_new_session=True)
        try:
            out, _ = p.communicate(timeout=timeout)
        except subprocess.TimeoutExpired:
            os.killpg(p.pid, 9)
            p.communicate()
            raise
        return p.returncode, out
    except subprocess.TimeoutExpired:
        return 124, ""


def lane(i, scratch, queue, lock, results, tier):
    wt = os.path.join(scratch, "wt%d" % i)
    vf = os.path.join(scratch, "vf%d" % i)
    sh(["git", "-C", "/repo", "worktree", "add", "--detach", wt, "HEAD"])
    sh(["rsync", "-a", "--exclude", ".build", "--exclude", "work", "--exclude", "replays", "--exclude", ".git", VERIF + "/", vf + "/"])
    env = dict(os.environ, CARGO_NET_OFFLINE="true", VERIF_REPO=wt)
    while True:
        with lock:
            if not queue:
                break
            d = queue.pop(0)
        meta = json.load(open(os.path.join(VERIF, "seeded", d, "meta.json")))
        prop = meta.get("detected_by", [meta["property"]])[0]
        rc, out = sh(["git", "-C", wt, "apply", os.path.join(VERIF, "seeded", d, "patch.diff")])
        if rc != 0:
            res = "patch-does-not-apply"
        else:
            rc, out = sh([os.path.join(vf, "check"), prop, tier], cwd=vf, env=env, timeout=7200)
            res = "caught" if rc == 1 and "VIOLATION property=" in out else "MISSED(rc=%d)" % rc
            sh(["git", "-C", wt, "checkout", "--", "."])
            sh(["git", "-C", wt, "clean", "-fdq", "src"])
        with lock:
            results[d] = (prop, res)
            print("%-60s %s %s" % (d, prop, res), flush=True)
    sh(["git", "-C", "/repo", "worktree", "remove", "--force", wt])
    shutil.rmtree(vf, ignore_errors=True)


def main():
    scratch, lanes = sys.argv[1], int(sys.argv[2])
    tier = sys.argv[3] if len(sys.argv) > 3 else "quick"
    only = sys.argv[4:]
    assert not os.path.abspath(scratch).startswith(("/repo", "/verif"))
    os.makedirs(scratch, exist_ok=True)
    queue = sorted(d for d in os.listdir(os.path.join(VERIF, "seeded"))
                   if os.path.exists(os.path.join(VERIF, "seeded", d, "patch.diff")) and (not only or any(o in d for o in only)))
    lock, results = threading.Lock(), {}
    ts = [threading.Thread(target=lane, args=(i, scratch, queue, lock, results, tier)) for i in range(lanes)]
    for t in ts:
        t.start()
    for t in ts:
        t.join()
    bad = [d for d, (p, r) in results.items() if r != "caught" and not d.startswith("not-kept")]
    kept = [d for d in results if not d.startswith("not-kept")]
    print("%d kept seeded changes, %d detected, %d not (%d set aside)" % (len(kept), len(kept) - len(bad), len(bad), len(results) - len(kept)))
    for d in bad:
        print("  NOT DETECTED:", d, results[d])
    sys.exit(0 if not bad else 1)


if __name__ == "__main__":
    main()
