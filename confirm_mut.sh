#!/bin/sh
# confirm_mut.sh <worktree>: with the mutation applied the 93 baseline tests pass and the demo fails;
# with the mutation reversed everything passes.  Prints a one-line summary.
wt=$1
cd $wt || exit 2
with=$(cargo test --offline 2>&1 | grep "test result" | head -1)
git apply -R mutation.diff || { echo "cannot reverse"; exit 2; }
without=$(cargo test --offline 2>&1 | grep "test result" | head -1)
git apply mutation.diff
echo "$wt | with mutation: $with | without: $without"
