#!/bin/sh
# mutest.sh <patch.diff> <tier> <prop> [<prop>...]
# Apply a seeded change to /repo, run the given checks, and undo the change straight afterwards.
patch=$1; tier=$2; shift 2
cd "$(dirname "$0")"; mkdir -p work
if ! git -C /repo diff --quiet; then echo "/repo has uncommitted changes; refusing"; exit 2; fi
git -C /repo apply "$patch" || { echo "patch does not apply"; exit 2; }
trap 'git -C /repo checkout -- . ; git -C /repo clean -fdq src; git checkout -q -- evidence' EXIT INT TERM
for p in "$@"; do
  s=$(date +%s)
  ./check $p $tier > work/mut_$p.log 2>&1
  rc=$?
  e=$(date +%s)
  echo "$p rc=$rc $((e-s))s $(grep -c '^VIOLATION' work/mut_$p.log) violations"
  grep -A1 '^VIOLATION' work/mut_$p.log | grep clause | sort | uniq -c | head -5
done
