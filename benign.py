#!/usr/bin/env python3
"""benign.py <scratch-dir> <lanes> <tier> <patch.diff> [<patch.diff> ...]

Development tool, the counterpart of regress_seeded.py: runs all twenty checks against changes
that keep every property true (taken from /verif/benign/*.diff or given explicitly) and reports
any alarm.  Never touches /repo (scratch worktrees and scratch copies of /verif under
<scratch-dir>, removed at the end).  Exit 0 iff no check raised an alarm or failed."""
import os
import shutil
import subprocess
import sys
import threading

VERIF = os.path.dirname(os.path.abspath(__file__))
PROPS = ["C%02d" % i for i in range(1, 21)]
if os.environ.get("BENIGN_PROPS"):             # restrict to some properties (development shortcut)
    PROPS = os.environ["BENIGN_PROPS"].split(",")


def sh(cmd, cwd=None, env=None, timeout=None):
    try:
        # own process group, killed as a whole on timeout (a hanging test binary would otherwise spin on)
        p = subprocess.Popen(cmd, cwd=cwd, env=env, stdout=subprocess.PIPE, stderr=subprocess.STDOUT, text=True, start_new_session=True)
        try:
            out, _ = p.communicate(timeout=timeout)
        except subprocess.TimeoutExpired:
            os.killpg(p.pid, 9)
            p.communicate()
            raise
        return p.returncode, out
    except subprocess.TimeoutExpired:
        return 124, ""


def lane(i, scratch, queue, lock, results, tier):
    wt = os.path.join(scratch, "wt%d" % i)
    vf = os.path.join(scratch, "vf%d" % i)
    sh(["git", "-C", "/repo", "worktree", "add", "--detach", wt, "HEAD"])
    sh(["rsync", "-a", "--exclude", ".build", "--exclude", "work", "--exclude", "replays", "--exclude", ".git", "--exclude", "seeded",
        VERIF + "/", vf + "/"])
    env = dict(os.environ, CARGO_NET_OFFLINE="true", VERIF_REPO=wt)
    while True:
        with lock:
            if not queue:
                break
            patch = queue.pop(0)
        rc, out = sh(["git", "-C", wt, "apply", patch])
        if rc != 0:
            with lock:
                results.append((patch, "-", "patch-does-not-apply"))
            continue
        for p in PROPS:
            rc, out = sh([os.path.join(vf, "check"), p, tier], cwd=vf, env=env, timeout=7200)
            bad = rc != 0 or "VIOLATION property=" in out
            with lock:
                results.append((patch, p, "ALARM rc=%d" % rc if bad else "quiet"))
                if bad:
                    print("%s %s ALARM rc=%d" % (os.path.basename(patch), p, rc), flush=True)
                    for l in out.split("\n"):
                        if l.startswith("VIOLATION") or "clause=" in l or "TOOL-ERROR" in l:
                            print("    " + l[:200], flush=True)
        with lock:
            print("%s done" % os.path.basename(patch), flush=True)
        sh(["git", "-C", wt, "checkout", "--", "."])
        sh(["git", "-C", wt, "clean", "-fdq", "src"])
    sh(["git", "-C", "/repo", "worktree", "remove", "--force", wt])
    shutil.rmtree(vf, ignore_errors=True)


def main():
    scratch, lanes, tier = sys.argv[1], int(sys.argv[2]), sys.argv[3]
    patches = [os.path.abspath(p) for p in sys.argv[4:]]
    if not patches:
        d = os.path.join(VERIF, "benign")
        patches = sorted(os.path.join(d, f) for f in os.listdir(d) if f.endswith(".diff"))
    assert not os.path.abspath(scratch).startswith(("/repo", "/verif"))
    os.makedirs(scratch, exist_ok=True)
    lock, results = threading.Lock(), []
    ts = [threading.Thread(target=lane, args=(i, scratch, patches, lock, results, tier)) for i in range(lanes)]
    for t in ts:
        t.start()
    for t in ts:
        t.join()
    bad = [r for r in results if r[2] != "quiet"]
    print("%d check runs, %d alarms" % (len(results), len(bad)))
    sys.exit(0 if not bad else 1)


if __name__ == "__main__":
    main()
